"""Developer helper for the seeded changes under seeded/<name>/ (patch.diff, demo.py, meta.json).

  tools_seeded.py verify NAME   apply the patch to a scratch copy of /repo's working tree; run the baseline suite and
                                the demonstration with and without the change; print what happened
  tools_seeded.py detect NAME [PROPERTY ...]
                                run the quick tier of the given checks (default: meta.json "property") against the
                                scratch copy with the change via PLAYBACK_SRC
Scratch copies live under a fresh temporary directory and are removed afterwards; /repo is never modified.
"""
import json
import os
import shutil
import subprocess
import sys
import tempfile

VERIF = os.path.dirname(os.path.abspath(__file__))
PY = '/venv/bin/python'


def scratch(patch):
    d = tempfile.mkdtemp(prefix='verif-seeded-')
    for name in ('playback', 'tests', 'examples'):
        shutil.copytree(os.path.join('/repo', name), os.path.join(d, name))
    for name in ('setup.py', 'README.md', 'requirements.txt'):
        if os.path.exists(os.path.join('/repo', name)):
            shutil.copy(os.path.join('/repo', name), d)
    if patch:
        r = subprocess.run(['patch', '-p1', '--no-backup-if-mismatch', '-i', patch], cwd=d, stdout=subprocess.PIPE,
                           stderr=subprocess.STDOUT, universal_newlines=True)
        if r.returncode != 0:
            shutil.rmtree(d, ignore_errors=True)
            raise SystemExit('patch does not apply to the current /repo tree:\n' + r.stdout)
    return d


def run(cmd, cwd, env=None, timeout=1800):
    e = dict(os.environ)
    e.update(env or {})
    r = subprocess.run(cmd, cwd=cwd, env=e, stdout=subprocess.PIPE, stderr=subprocess.STDOUT, universal_newlines=True,
                       timeout=timeout)
    return r.returncode, r.stdout


def verify(name):
    sd = os.path.join(VERIF, 'seeded', name)
    out = {}
    for label, patch in (('with_change', os.path.join(sd, 'patch.diff')), ('without_change', None)):
        d = scratch(patch)
        try:
            rc, o = run([PY, '-m', 'pytest', '-q', '-p', 'no:cacheprovider', '--timeout=900',
                         '--continue-on-collection-errors'], d, {'PYTHONPATH': d})
            out[label + '_suite'] = o.strip().splitlines()[-1]
            rc, o = run([PY, os.path.join(sd, 'demo.py')], d, {'PYTHONPATH': d})
            out[label + '_demo_exit'] = rc
            out[label + '_demo_tail'] = o.strip().splitlines()[-1][:300] if o.strip() else ''
        finally:
            shutil.rmtree(d, ignore_errors=True)
    print(json.dumps(out, indent=1))
    return out


def detect(name, props):
    sd = os.path.join(VERIF, 'seeded', name)
    meta = json.load(open(os.path.join(sd, 'meta.json'))) if os.path.exists(os.path.join(sd, 'meta.json')) else {}
    props = props or [meta.get('property')]
    d = scratch(os.path.join(sd, 'patch.diff'))
    res = {}
    try:
        for p in props:
            rc, o = run(['./check', p, '--tier', 'quick', '--no-evidence'], VERIF, {'PLAYBACK_SRC': d})
            clause = [l.strip() for l in o.splitlines() if l.strip().startswith('clause:')]
            res[p] = {0: 'MISSED', 1: 'caught', 2: 'HARNESS-ERROR'}.get(rc, 'rc=%d' % rc) + (
                ' [%s]' % clause[0][:100] if clause else '')
            if rc == 2:
                res[p] += '\n' + o[-1200:]
            print('%-28s %-4s %s' % (name, p, res[p]))
            sys.stdout.flush()
    finally:
        shutil.rmtree(d, ignore_errors=True)
    return res


if __name__ == '__main__':
    if sys.argv[1] == 'verify':
        verify(sys.argv[2])
    else:
        detect(sys.argv[2], sys.argv[3:])
