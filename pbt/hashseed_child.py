"""Child interpreter for C06: records / replays batches of input calls through the real recorder and the
file-based cassette. Started with a fixed PYTHONHASHSEED by pbt.hashseed.Child."""
import os
import sys
import traceback


def main():
    sys.path.insert(0, os.path.abspath(os.environ.get('PLAYBACK_SRC', '/repo')))
    import logging
    import warnings
    logging.disable(logging.CRITICAL)
    warnings.filterwarnings('ignore')
    from pbt.hashseed import send, recv
    inp, out = sys.stdin.buffer, sys.stdout.buffer
    sys.stdout = sys.stderr    # nothing but protocol frames on the real stdout
    preimported = []
    if os.environ.get('PBT_CHILD_PREIMPORT'):
        import importlib
        import pkgutil
        import playback
        for m in pkgutil.walk_packages(playback.__path__, 'playback.'):
            try:
                importlib.import_module(m.name)
                preimported.append(m.name)
            except ImportError:
                pass
    send(out, {'hashseed': os.environ.get('PYTHONHASHSEED'), 'flags': sys.flags.hash_randomization,
               'preimported': preimported})
    from pbt import progsim as PS
    from playback.tape_recorder import TapeRecorder
    from playback.tape_cassettes.file_based.file_based_tape_cassette import FileBasedTapeCassette
    while True:
        msg = recv(inp)
        try:
            if msg['cmd'] == 'quit':
                return
            prog = PS.assign_sids(msg['prog'])
            prog['class_name'] = 'HashSeedOp'
            cas = FileBasedTapeCassette(msg['dir'])
            rec = TapeRecorder(cas)
            W = PS.World('LIVE' if msg['cmd'] == 'record' else 'REPLAY')
            cls = PS.build_class(prog, rec, W)
            if msg['cmd'] == 'record':
                rec.enable_recording()
                if msg.get('dirty_first'):
                    # this process has a history: an earlier operation made a call whose key could not be built
                    # (unserialisable argument; that recording is discarded, as it must be)
                    import tempfile
                    import shutil
                    d0 = tempfile.mkdtemp(prefix='verif-c06d-')
                    try:
                        from pbt import faultrun as FR
                        p0 = PS.assign_sids({'klass': 'instance', 'outs': [], 'class_name': 'HashSeedEarlier',
                                             'ins': [{'alias': 'earlier', 'kind': 'instance', 'resolver': False,
                                                      'capture': 'all', 'handler': 'none'}],
                                             'steps': [{'t': 'in', 'i': 0, 'a': [[1, 2], FR.UNENC], 'b': None,
                                                        'usekw': False, 'beh': 'ret', 'ret': 1, 'name': 'n1'}],
                                             'ending': 'return', 'result': None, 'extractor': 'none'})
                        rec0 = TapeRecorder(FileBasedTapeCassette(d0))
                        rec0.enable_recording()
                        W0 = PS.World('LIVE')
                        PS.execute(PS.build_class(p0, rec0, W0), p0)
                    finally:
                        shutil.rmtree(d0, ignore_errors=True)
                live = PS.execute(cls, prog)
                rid = W.recording_ids[-1] if W.recording_ids else None
                keys = sorted(cas.get_recording(rid).get_all_keys()) if rid else []
                send(out, {'rid': rid, 'keys': keys, 'outcome': live[0],
                           'error': repr(live[2]) if live[0] != 'ret' else None})
            else:
                res = {}

                def pf(recording):
                    res['r'] = PS.execute(cls, prog)

                err = None
                try:
                    rec.play(msg['rid'], pf)
                except Exception as e:  # pylint: disable=broad-except
                    err = '%s: %s' % (type(e).__name__, e)
                sites = {}
                for sid, s in W.sites.items():
                    sites[sid] = ('v', s[1]) if s[0] == 'v' else ('e', type(s[1]).__name__)
                bodies = [j for j in W.journal if j[0] == 'body']
                send(out, {'sites': sites, 'play_error': err, 'bodies': len(bodies)})
        except Exception:  # pylint: disable=broad-except
            src = os.path.join(os.path.abspath(os.environ.get('PLAYBACK_SRC', '/repo')), 'playback') + os.sep
            tb = sys.exc_info()[2]
            from_src = False
            while tb is not None:
                if os.path.abspath(tb.tb_frame.f_code.co_filename).startswith(src):
                    from_src = True
                tb = tb.tb_next
            send(out, {'src_error' if from_src else 'harness_error': traceback.format_exc()})


if __name__ == '__main__':
    main()
