"""In-memory cassette whose recordings take a moment per write: stands for real (slow) storage behind the asynchronous
wrapper, so that flush rounds overlap with the recording operation. Module-level classes (the serializer resolves them)."""
import time
import uuid

from playback.recordings.memory.memory_recording import MemoryRecording
from playback.tape_cassettes.in_memory.in_memory_tape_cassette import InMemoryTapeCassette


class SlowRecording(MemoryRecording):
    def __init__(self, _id=None, delay=0.0):
        MemoryRecording.__init__(self, _id)
        self.delay = delay

    def _set_data(self, key, value):
        time.sleep(self.delay)
        MemoryRecording._set_data(self, key, value)

    def _add_metadata(self, metadata):
        time.sleep(self.delay)
        MemoryRecording._add_metadata(self, metadata)


class SlowCassette(InMemoryTapeCassette):
    def __init__(self, delay=0.0005):
        InMemoryTapeCassette.__init__(self)
        self.delay = delay

    def create_new_recording(self, category):
        return SlowRecording(u'{}/{}'.format(category, uuid.uuid1().hex), self.delay)
