"""Program simulator (DESIGN.md 2.3): JSON-able descriptions of service operations, interpreted into real classes
decorated with the REAL TapeRecorder decorators (or with identity decorators: the undecorated twin), with a harness
journal of every body execution and every call-site outcome. Oracles read the journal, never recorder internals.

Program = {klass: instance|class, params: null|{...}, extractor: none|ok|raises|junk, extractor_meta: [[k, desc]],
           ins: [InputDecl], outs: [OutputDecl], steps: [Step], ending: return|raise|interrupt, result: desc?}
InputDecl  = {alias, kind: instance|static|property, resolver: bool, capture: all|none|false|pos1|name_b|pos1_name_b,
              handler: none|wrap, fallback: null|{kind: list|fn, aliases: [str]}, run_missing: bool,
              value_missing: {kind: unset|value|callable, v: desc}}
OutputDecl = {alias, kind: instance|static, handler: none|wrap, fail_missing: bool, default: desc}
Step = {t: in, i, a, b, usekw, beh, ret, name, hfail?, exc?}          beh: ret|raise|interrupt|nested|discard|
     | {t: out, i, a, kw: [[k, desc]], beh, ret, hfail?, exc?}              discard_raise|force
     | {t: discard} | {t: force} | {t: record_data, k, v} | {t: sleep, ms} | {t: threads, workers: [[Step]]}
     | (in-steps) mutate_args: int   the wrapped function mutates its arguments in place
     | {t: mutate_last}   (in-place mutation of the value the previous call returned, how: int)
     | {t: nested_op, inner: ret|raise, skipped?: bool}   (calls another decorated operation of the same recorder, copes
       with refusal; skipped: that operation's class is configured as skipped, i.e. plain code)
"""
import copy
import itertools
import sys
import threading
import time
import types

from pbt import values as V

CLASSES_MODULE = 'pbt.progsim_classes'
_mod = types.ModuleType(CLASSES_MODULE)
sys.modules[CLASSES_MODULE] = _mod
_counter = itertools.count()

POISON = 'BODY-RAN-IN-REPLAY'

CAPTURES = ('all', 'none', 'false', 'pos1', 'name_b', 'pos1_name_b')


def _resolve_alias_params(step):
    fault = step.get('resolver_fault')
    if fault == 'resolver_raises':
        raise RuntimeError('alias parameter resolver failed on purpose')
    if fault == 'resolver_no_placeholder':
        return {'another_name': step['name']}
    return {'name': step['name']}


def captured_args(kind, capture):
    from playback.tape_recorder import CapturedArg
    off = 0 if kind == 'static' else 1
    return {'all': None, 'none': [], 'false': False,
            'pos1': [CapturedArg(off, 'a')], 'name_b': [CapturedArg(None, 'b')],
            'pos1_name_b': [CapturedArg(off, 'a'), CapturedArg(off + 1, 'b')]}[capture]


class World(object):
    """Per-run harness state shared by bodies and call sites."""

    def __init__(self, world='LIVE'):
        self.world = world
        self.journal = []       # ('body', 'in'|'out', decl index, world, sid, args-copy)
        self.stale_exceptions = []
        self.call_copies = []   # ('v', sid, deep copy at call time) | ('e', sid, type name)
        self.outcalls = []      # (output decl index, args, kwargs) journalled at the call site, copies
        self.sites = {}         # sid -> ('v', value) | ('e', exception)
        self.body_out = {}      # sid -> ('v', obj) | ('e', exc)  what the body itself produced (identity)
        self.tl = threading.local()
        self.recorder = None
        self.cls = None
        self.nested_target = None
        self.recording_ids = []
        self.detached = []      # worker threads the operation did not wait for
        self.shared = {}        # share key -> the one object instance that several calls pass as argument

    def cur(self):
        return getattr(self.tl, 'cur', None)


class _WrapIn(object):
    """Invertible input data handler; fails on demand (step flag hfail)."""

    def __init__(self, W):
        self.W = W

    def prepare_input_for_recording(self, interception_key, result, args, kwargs):
        s = self.W.cur()
        if s is not None and s.get('hfail'):
            raise RuntimeError('input data handler failing on purpose')
        return {'wrapped': result, 'by': 'WrapIn'}

    def restore_input_from_recording(self, recorded_data, args, kwargs):
        return recorded_data['wrapped']


class _WrapOut(object):
    def __init__(self, W):
        self.W = W

    def prepare_output_for_recording(self, interception_key, args, kwargs):
        s = self.W.cur()
        if s is not None and s.get('hfail'):
            raise RuntimeError('output data handler failing on purpose')
        return {'w': [list(args), dict(kwargs)], 'by': 'WrapOut'}

    def restore_output_from_recording(self, recorded_data):
        return recorded_data


def _handlers():
    from playback.interception.input_interception import InputInterceptionDataHandler
    from playback.interception.output_interception import OutputInterceptionDataHandler

    class WrapIn(_WrapIn, InputInterceptionDataHandler):
        pass

    class WrapOut(_WrapOut, OutputInterceptionDataHandler):
        pass

    return WrapIn, WrapOut


class _Identity(object):
    """Stands in for the recorder when building the undecorated twin."""

    @staticmethod
    def _id(*a, **k):
        return lambda f: f

    operation = class_operation = intercept_input = static_intercept_input = _id
    intercept_output = static_intercept_output = _id

    @staticmethod
    def recording_params(*a, **k):
        return lambda c: c

    def discard_recording(self):
        pass

    def force_sample_recording(self):
        pass

    def record_data(self, k, v):
        pass


def _body(W, kind, idx):
    """The wrapped function's body, shared by every signature."""

    def run(args, kwargs):
        s = W.cur()
        sid = s['sid'] if s else None
        W.journal.append(('body', kind, idx, W.world, sid))
        if s and s.get('mutate_args') is not None:
            # the wrapped function changes its arguments in place (pops the job it returns off the list it is given)
            for x in list(args) + list(kwargs.values()):
                V.mutate_in_place(x, s['mutate_args'])
        rec = W.recorder
        beh = s['beh'] if s else 'ret'
        if s and s.get('sync') and W.world == 'LIVE' and getattr(W, 'barrier', None) is not None and \
                not getattr(W, 'no_barrier', False):
            # rendezvous: all workers are inside an intercepted body at the same time (timeout = inconclusive)
            try:
                W.barrier.wait(0.5)
                W.journal.append(('rendezvous', sid))
            except threading.BrokenBarrierError:
                pass
        if beh in ('discard', 'discard_raise') and W.world == 'LIVE':
            rec.discard_recording()
        if beh == 'discard_then_op' and W.world == 'LIVE':
            # the intercepted function gives up on the recording and hands the work to another operation of the service
            rec.discard_recording()
            W.inner2_cls().execute()
        if beh == 'force' and W.world == 'LIVE':
            rec.force_sample_recording()
        if beh == 'nested' and W.nested_target is not None:
            W.nested_target(W)
        if beh in ('raise', 'discard_raise'):
            e = V.ERRS[s.get('exc', 'Err')]('body %s' % sid)
            W.body_out[sid] = ('e', e)
            raise e
        if beh == 'interrupt':
            e = V.Interrupt('body %s' % sid)
            W.body_out[sid] = ('e', e)
            raise e
        v = V.build(s['ret']) if s else None
        if W.world != 'LIVE':
            v = [POISON, v]
        W.body_out[sid] = ('v', v)
        return v

    return run


def build_class(prog, rec, W, decorated=True):
    """Builds the operation class. rec: TapeRecorder (decorated) or anything (twin)."""
    R = rec if decorated else _Identity()
    W.recorder = rec if decorated else _Identity()
    WrapIn, WrapOut = _handlers()
    ns = {}

    def mk_in(idx, d):
        body = _body(W, 'in', idx)
        if d['kind'] == 'property':
            f = property(lambda self: body((), {}))
        elif d['kind'] == 'static':
            f = lambda a=None, b=None: body((a, b), {})  # noqa: E731
        else:
            f = lambda self, a=None, b=None: body((a, b), {})  # noqa: E731
        kw = {}
        cap = captured_args(d['kind'], d.get('capture', 'all'))
        if cap is not None:
            kw['capture_args'] = cap
        if d.get('handler', 'none') == 'wrap':
            kw['data_handler'] = WrapIn(W)
        alias = d['alias']
        if d.get('resolver'):
            alias = alias + '.{name}'
            kw['alias_params_resolver'] = lambda *a, **k: _resolve_alias_params(W.cur())
        fb = d.get('fallback')
        if fb:
            if fb['kind'] == 'list':
                kw['fallback_aliases'] = list(fb['aliases'])
            else:
                aliases = list(fb['aliases'])
                kw['fallback_aliases'] = lambda *a, **k: list(aliases)
        if d.get('run_missing'):
            kw['run_intercepted_when_missing'] = True
        vm = d.get('value_missing') or {'kind': 'unset'}
        if vm['kind'] == 'value':
            kw['value_when_missing'] = V.build(vm['v'])
        elif vm['kind'] == 'callable':
            vv = vm['v']
            kw['value_when_missing'] = lambda *a, **k: ['SUBSTITUTE-CALLED', V.build(vv), len(a), sorted(k)]
        if not decorated:
            g = f
        elif d['kind'] == 'static':
            g = R.static_intercept_input(alias, **kw)(f)
        else:
            g = R.intercept_input(alias, **kw)(f)
        return staticmethod(g) if d['kind'] == 'static' else g

    def mk_out(idx, d):
        body = _body(W, 'out', idx)
        if d['kind'] == 'static':
            f = lambda *a, **k: body(a, k)  # noqa: E731
        else:
            f = lambda self, *a, **k: body(a, k)  # noqa: E731
        kw = {}
        if d.get('handler', 'none') == 'wrap':
            kw['data_handler'] = WrapOut(W)
        if not d.get('fail_missing', True):
            kw['fail_on_no_recorded_result'] = False
            if d.get('default') is not None:
                kw['default_result_when_not_recorded'] = V.build(d['default'])
        if not decorated:
            g = f
        elif d['kind'] == 'static':
            g = R.static_intercept_output(d['alias'], **kw)(f)
        else:
            g = R.intercept_output(d['alias'], **kw)(f)
        return staticmethod(g) if d['kind'] == 'static' else g

    for i, d in enumerate(prog['ins']):
        ns['in%d' % i] = mk_in(i, d)
    for i, d in enumerate(prog['outs']):
        ns['out%d' % i] = mk_out(i, d)

    def arg_a(s):
        # calls marked with the same 'share' key pass the very same object instance (a config list built once)
        if s.get('share') is None:
            return V.build(s['a'])
        if s['share'] not in W.shared:
            W.shared[s['share']] = V.build(s['a'])
        return W.shared[s['share']]

    def call_step(inst, s):
        W.tl.cur = s
        try:
            if s['t'] == 'in':
                d = prog['ins'][s['i']]
                if d['kind'] == 'property':
                    v = getattr(inst, 'in%d' % s['i'])
                elif s.get('usekw') == 'both':
                    items = [('a', arg_a(s)), ('b', V.build(s['b']))]
                    if s.get('kwrev'):
                        items.reverse()
                    v = getattr(inst, 'in%d' % s['i'])(**dict(items))
                elif s.get('usekw'):
                    v = getattr(inst, 'in%d' % s['i'])(arg_a(s), b=V.build(s['b']))
                else:
                    v = getattr(inst, 'in%d' % s['i'])(arg_a(s), V.build(s['b']))
            else:
                oargs = tuple(V.build(x) for x in ([s['a']] + list(s.get('more', []))))[s.get('skip_first', 0):]
                okw = dict((k, V.build(x)) for k, x in s.get('kw', []))
                W.outcalls.append((s['i'], copy.deepcopy(oargs), copy.deepcopy(okw)))
                v = getattr(inst, 'out%d' % s['i'])(*oargs, **okw)
            W.sites[s['sid']] = ('v', v)
            W.call_copies.append(('v', s['sid'], copy.deepcopy(v)))
            return W.call_copies[-1]
        except Exception as e:  # pylint: disable=broad-except
            W.sites[s['sid']] = ('e', e)
            if getattr(W, 'mutate_exceptions', False):
                # the code that caught the exception annotates it in place (retry loops do); a later raise of the same
                # recorded exception must not carry the annotation
                if getattr(e, 'verif_annotations', None):
                    W.stale_exceptions.append((s['sid'], list(e.verif_annotations)))
                try:
                    e.verif_annotations = getattr(e, 'verif_annotations', []) + ['seen at %s' % s['sid']]
                except Exception:  # pylint: disable=broad-except
                    pass
            if s.get('reraise'):
                raise
            if s.get('reraise_framework'):
                from playback.exceptions import TapeRecorderException
                if isinstance(e, TapeRecorderException):
                    raise
            W.call_copies.append(('e', s['sid'], type(e).__name__))
            return W.call_copies[-1]
        except BaseException as e:
            W.sites[s['sid']] = ('e', e)
            if s.get('swallow_interrupt') and isinstance(e, V.Interrupt):
                # the service bounds the call with a timeout whose exception is interrupt-style (not an Exception,
                # as gevent.Timeout) and carries on without the value
                W.call_copies.append(('e', s['sid'], type(e).__name__))
                return W.call_copies[-1]
            raise
        finally:
            W.tl.cur = None

    def run_steps(inst, steps, seen):
        rec_ = W.recorder
        for s in steps:
            t = s['t']
            if t in ('in', 'out'):
                seen.append(call_step(inst, s))
            elif t == 'discard':
                rec_.discard_recording()
            elif t == 'force':
                rec_.force_sample_recording()
            elif t == 'record_data':
                rec_.record_data(s['k'], V.build(s['v']))
            elif t == 'sleep':
                time.sleep(s['ms'] / 1000.0)
            elif t == 'toggle':
                # the service (or an admin thread) switches recording off / on while the operation runs
                if hasattr(rec_, 'enable_recording'):
                    (rec_.enable_recording if s['on'] else rec_.disable_recording)()
            elif t == 'mutate_last':
                prev = [x for x in seen if x[0] == 'v']
                if prev:
                    site = W.sites.get(prev[-1][1])
                    if site and site[0] == 'v':
                        V.mutate_in_place(site[1], s.get('how', 0))
            elif t == 'threads':
                results = [None] * len(s['workers'])
                errors = []

                def worker(k, wsteps):
                    mine = []
                    try:
                        run_steps(inst, wsteps, mine)
                    except BaseException as e:  # pylint: disable=broad-except
                        errors.append(e)
                    results[k] = mine

                nsync = sum(1 for ws in s['workers'] if any(x.get('sync') for x in ws))
                W.barrier = threading.Barrier(nsync) if nsync >= 2 else None
                ths = [W.thread_factory(target=worker, args=(k, ws)) for k, ws in enumerate(s['workers'])]
                for th in ths:
                    th.start()
                if s.get('detach'):
                    # fire-and-forget workers: the operation does not wait for them, they may outlive it (whoever
                    # runs the program joins W.detached afterwards)
                    W.detached.extend(ths)
                    seen.append(('threads-detached', s['sid'], len(ths)))
                    continue
                for th in ths:
                    th.join()
                seen.append(('threads', s['sid'], results))
                if errors:
                    raise errors[0]
            elif t == 'nested_op':
                # the operation calls another decorated operation of the same recorder (which refuses to start a
                # second recording while one is running) and copes with the refusal
                W.tl.inner_raises = s.get('inner') == 'raise'
                try:
                    # (skipped: the other operation belongs to a class configured as skipped - plain code, no refusal)
                    (W.inner_skipped_cls if s.get('skipped') else W.inner_cls)().execute()
                except AssertionError:
                    W.journal.append(('inner-op-refused', W.world))
                except V.Err:
                    pass
            elif t == 'raise_now':
                raise V.ERRS[s.get('exc', 'Err')]('step %s' % s['sid'])
            elif t == 'interrupt_now':
                if s.get('exc') == 'SystemExit0':
                    raise SystemExit(0)       # a graceful-shutdown handler calling sys.exit(0) in the middle of the run
                if s.get('exc') == 'SystemExit':
                    raise SystemExit()
                if s.get('exc') == 'KeyboardInterrupt':
                    raise KeyboardInterrupt()
                raise V.Interrupt('step %s' % s['sid'])
            else:
                raise ValueError(s)

    def run(self_or_cls):
        inst = self_or_cls if not isinstance(self_or_cls, type) else self_or_cls()
        rid = getattr(W.recorder, 'current_recording_id', None)
        if rid is not None and W.world == 'LIVE':
            W.recording_ids.append(rid)
        seen = []
        W.t_body_start = time.time()
        try:
            run_steps(inst, prog['steps'], seen)
            ending = prog.get('ending', 'return')
            if ending == 'raise':
                raise V.ERRS[prog.get('ending_exc', 'Err')]('ending')
            if ending == 'interrupt':
                raise V.Interrupt('ending')
            return {'seen': seen, 'result': V.build(prog.get('result'))}
        finally:
            W.t_body_end = time.time()

    def extractor(*a, **k):
        W.journal.append(('extractor', W.world, len(a), sorted(k)))
        if prog.get('extractor_sleep_ms'):
            time.sleep(prog['extractor_sleep_ms'] / 1000.0)
        mode = prog.get('extractor', 'none')
        if mode == 'raises':
            raise RuntimeError('metadata extractor failing on purpose')
        if mode == 'junk_none':
            return None
        if mode == 'junk_int':
            return 7
        if mode == 'calls_output':
            # the extractor uses the service's own (intercepted) functions; it runs after the operation
            target = a[0] if a else None
            inst_ = target() if isinstance(target, type) else target
            if inst_ is not None:
                if prog['outs']:
                    inst_.out0('from-extractor')
                if prog['ins'] and prog['ins'][0]['kind'] != 'property':
                    W.tl.cur = {'sid': 'extractor.in', 'beh': 'ret', 'ret': 'extractor-read', 'name': 'n1'}
                    try:
                        inst_.in0('ex', 'tractor')
                    finally:
                        W.tl.cur = None
            return {'user_key': 'user value'}
        if mode == 'discards':
            # the extractor (it runs after the operation has finished) gives up on the recording
            W.recorder.discard_recording()
        if mode == 'junk_list':
            return [1, 2]
        if mode == 'junk_keys':         # a mapping, but not with string keys
            return {1: 'one', None: 'x', ('a', 'b'): 2, b'raw': 3}
        if mode == 'junk_pairs':        # iterable of pairs, as dict.update accepts
            return [(2, 'two'), ('k', 'v')]
        if mode == 'junk_str':
            return 'not a mapping'
        return dict((kk, V.build(vv)) for kk, vv in prog.get('extractor_meta', []))

    ex = extractor if prog.get('extractor', 'none') != 'none' else None
    if prog.get('klass', 'instance') == 'class':
        ns['execute'] = classmethod(R.class_operation(metadata_extractor=ex)(run)) if decorated else classmethod(run)
    else:
        ns['execute'] = R.operation(metadata_extractor=ex)(run) if decorated else run
    name = prog.get('class_name') or ('Op%d' % next(_counter))
    bases_ = (object,)
    if decorated and prog.get('base_params') is not None:
        # the operation class extends another operation class of the service that was configured (earlier) with
        # recording parameters of its own; each class is recorded with the parameters IT was given
        from playback.tape_recorder import RecordingParameters
        configured_base = type(name + 'Base', (object,), {})
        configured_base.__module__ = CLASSES_MODULE
        setattr(_mod, name + 'Base', configured_base)
        R.recording_params(RecordingParameters(**prog['base_params']))(configured_base)
        bases_ = (configured_base,)
    cls = type(name, bases_, ns)
    cls.__module__ = CLASSES_MODULE
    setattr(_mod, name, cls)
    if decorated and (prog.get('params') or prog.get('params_fault')):
        from playback.tape_recorder import RecordingParameters
        kw = dict(prog.get('params') or {})
        if prog.get('params_fault') == 'rate_raises':
            class BadRate(RecordingParameters):
                def _get(self):
                    raise RuntimeError('sampling rate lookup failing on purpose')

                def _set(self, v):
                    pass
                sampling_rate = property(_get, _set)
            R.recording_params(BadRate(**kw))(cls)
        else:
            if prog.get('params_fault') == 'rate_str':
                kw['sampling_rate'] = '0.25'
            R.recording_params(RecordingParameters(**kw))(cls)
    if prog.get('derived'):
        # the operation runs on a subclass of the decorated class (the recording parameters sit on the base)
        if decorated and not (prog.get('params') or prog.get('params_fault')):
            from playback.tape_recorder import RecordingParameters
            R.recording_params(RecordingParameters())(cls)
        base = cls
        cls = type(name + 'Derived', (base,), {})
        cls.__module__ = CLASSES_MODULE
        setattr(_mod, name + 'Derived', cls)
        cls._verif_base = base
    W.cls = cls

    def inner_run(self):
        W.journal.append(('inner-op', W.world))
        if getattr(W.tl, 'inner_raises', False):
            raise V.Err('inner operation fails')
        return 'inner result'

    def inner2_read(self, x):
        W.journal.append(('inner2-read', W.world))
        return ['inner2', x]

    def inner2_run(self):
        W.journal.append(('inner2-op', W.world))
        return self.read(5)

    inner2 = type(name + 'Inner2', (object,), {
        'read': R.intercept_input('inner2.read')(inner2_read) if decorated else inner2_read,
        'execute': R.operation()(inner2_run) if decorated else inner2_run})
    inner2.__module__ = CLASSES_MODULE
    setattr(_mod, name + 'Inner2', inner2)
    W.inner2_cls = inner2
    inner = type(name + 'Inner', (object,), {'execute': R.operation()(inner_run) if decorated else inner_run})
    inner.__module__ = CLASSES_MODULE
    setattr(_mod, name + 'Inner', inner)
    W.inner_cls = inner
    inner_skipped = type(name + 'InnerSkipped', (object,), {
        'execute': R.operation()(inner_run) if decorated else inner_run})
    inner_skipped.__module__ = CLASSES_MODULE
    setattr(_mod, name + 'InnerSkipped', inner_skipped)
    if decorated:
        from playback.tape_recorder import RecordingParameters as _RP
        R.recording_params(_RP(skipped=True))(inner_skipped)
    W.inner_skipped_cls = inner_skipped
    if not hasattr(W, 'thread_factory'):
        W.thread_factory = lambda target, args: threading.Thread(target=target, args=args)

    # nested interception target: another intercepted function called from inside a body
    def nested(W_):
        saved = W_.cur()
        inner = {'sid': (saved['sid'] + '.inner') if saved else 'inner', 'beh': 'ret', 'ret': 'inner', 'name': 'n1'}
        W_.tl.cur = inner
        try:
            inst = cls()
            if prog['ins']:
                d0 = prog['ins'][0]
                if d0['kind'] == 'property':
                    inst.in0  # pylint: disable=pointless-statement
                else:
                    inst.in0(1, 2)
            elif prog['outs']:
                inst.out0('inner')
        finally:
            W_.tl.cur = saved
    W.nested_target = nested
    return cls


def forget_class(cls):
    base = getattr(cls, '_verif_base', None)
    for n in (cls.__name__, cls.__name__ + 'Inner', cls.__name__ + 'Inner2', cls.__name__ + 'Base', cls.__name__ + 'InnerSkipped') + (
            (base.__name__, base.__name__ + 'Inner', base.__name__ + 'Inner2') if base else ()):
        try:
            delattr(_mod, n)
        except AttributeError:
            pass


def execute(cls, prog):
    """Runs the operation once; returns ('ret', value) | ('exc', type name, exc) | ('interrupt', type name, exc)."""
    target = cls if prog.get('klass', 'instance') == 'class' else cls()
    try:
        return ('ret', target.execute())
    except Exception as e:  # pylint: disable=broad-except
        return ('exc', type(e).__name__, e)
    except (V.Interrupt, SystemExit, KeyboardInterrupt) as e:
        return ('interrupt', type(e).__name__, e)


# ------------------------------------------------------------------------------------------------
# model of the input key (which calls the recorder must treat as the same input)


def iter_steps(steps):
    for s in steps:
        if s['t'] == 'threads':
            for ws in s['workers']:
                for x in iter_steps(ws):
                    yield x
        else:
            yield s


def assign_sids(prog):
    def walk(steps, prefix):
        for k, s in enumerate(steps):
            s['sid'] = '%s%d' % (prefix, k)
            if s['t'] == 'threads':
                for w, ws in enumerate(s['workers']):
                    walk(ws, '%s%d.w%d.' % (prefix, k, w))
    walk(prog['steps'], 's')
    return prog


def captured_view(decl, s):
    """The part of a call the key may depend on: list of tags and argument descriptions (harness model)."""
    cap = decl.get('capture', 'all')
    if decl['kind'] == 'property':
        return []
    style = 'both' if s.get('usekw') == 'both' else ('kw' if s.get('usekw') else 'pos')
    a_tag = 'a-kw' if style == 'both' else 'a-pos'
    b_tag = 'b-pos' if style == 'pos' else 'b-kw'
    if cap == 'all':
        return [a_tag, s['a'], b_tag, s['b']]
    if cap == 'pos1':
        return [a_tag, s['a']]
    if cap == 'name_b':
        return [s['b']] if style != 'pos' else []
    if cap == 'pos1_name_b':
        return [a_tag, s['a'], b_tag, s['b']]
    return []


def model_key(prog, s):
    """Harness model of input identity: alias (+ resolver name) and the captured arguments."""
    from jsonpickle import encode
    d = prog['ins'][s['i']]
    key = [d['alias'] + ('.' + s['name'] if d.get('resolver') else '')]
    for part in captured_view(d, s):
        key.append(part if isinstance(part, str) and part in ('a-kw', 'a-pos', 'b-kw', 'b-pos') else
                   ('v', encode(V.build(part))))
    return tuple(key)


def normalise_inputs(prog):
    """Generator precondition of C01: an input is a function of its alias and captured arguments.
    Calls with the same model key get the behaviour and value of the first such call."""
    table = {}
    for s in iter_steps(prog['steps']):
        if s['t'] != 'in':
            continue
        try:
            k = model_key(prog, s)
        except Exception:  # unencodable argument: key cannot be built, nothing recorded
            continue
        if k in table:
            s['ret'], s['beh'], s['exc'], sw = table[k]
            s.pop('swallow_interrupt', None)
            if sw:
                s['swallow_interrupt'] = True
        else:
            table[k] = (s['ret'], s['beh'], s.get('exc', 'Err'), s.get('swallow_interrupt', False))
    return prog


# ------------------------------------------------------------------------------------------------
# Hypothesis strategies over programs

from hypothesis import strategies as st  # noqa: E402

IN_ALIASES = ['in', 'in.x', 'db read', 'cfg', u'é"q\'', 'a{b}']
OUT_ALIASES = ['out', 'out.q', 'a #1', 'k', 'send,=', 'in']
# aliases with braces cannot carry a resolver ('{b}' would be a format field): handled in input_decls


def input_decls(extra=None):
    base = dict(alias=st.sampled_from(IN_ALIASES), kind=st.sampled_from(['instance', 'instance', 'static', 'property']),
                resolver=st.booleans(), capture=st.sampled_from(CAPTURES), handler=st.sampled_from(['none', 'none', 'wrap']))
    if extra:
        base.update(extra)
    return st.fixed_dictionaries(base)


def output_decls(extra=None):
    base = dict(alias=st.sampled_from(OUT_ALIASES), kind=st.sampled_from(['instance', 'instance', 'static']),
                handler=st.sampled_from(['none', 'none', 'wrap']))
    if extra:
        base.update(extra)
    return st.fixed_dictionaries(base)


def _unique_by_alias(decls):
    seen, out = set(), []
    for d in decls:
        if d['alias'] not in seen:
            seen.add(d['alias'])
            out.append(d)
    return out


def fix_decls(ins, outs):
    ins = _unique_by_alias(ins)
    outs = _unique_by_alias(outs)
    for d in ins:
        if d['kind'] == 'property' and d['capture'] not in ('all', 'none', 'false'):
            d['capture'] = 'all'     # a property has only self: positional capture would be a caller error
        if '{' in d['alias']:
            d['resolver'] = False
    return ins, outs


@st.composite
def in_step(draw, ins, values, behs=('ret', 'ret', 'ret', 'raise', 'nested')):
    i = draw(st.integers(0, len(ins) - 1))
    d = ins[i]
    if d['kind'] == 'property':
        a, b, usekw = None, None, False
    else:
        a, b, usekw = draw(values), draw(values), draw(st.sampled_from([False, False, True, True, 'both']))
    return dict(t='in', i=i, a=a, b=b, usekw=usekw, beh=draw(st.sampled_from(behs)), ret=draw(values),
                name=draw(st.sampled_from(['n1', 'n2'])), exc=draw(st.sampled_from(['Err', 'Err', 'ValueError', 'KeyError'])))


@st.composite
def out_step(draw, outs, values, behs=('ret', 'ret', 'ret', 'raise'), only=None):
    i = only if only is not None else draw(st.integers(0, len(outs) - 1))
    kw = draw(st.lists(st.tuples(st.sampled_from(['p', 'q']), values), max_size=2, unique_by=lambda kv: kv[0]))
    more = draw(st.one_of(st.just([]), st.just([]), st.lists(values, max_size=2)))
    return dict(t='out', i=i, a=draw(values), more=more, skip_first=draw(st.sampled_from([0, 0, 0, 0, 1])),
                kw=[list(x) for x in kw], beh=draw(st.sampled_from(behs)),
                ret=draw(values), exc=draw(st.sampled_from(['Err2', 'Err2', 'ValueError'])))


@st.composite
def step_lists(draw, ins, outs, values, max_steps, in_behs, out_behs, threads=True, depth=0, worker=None):
    n = draw(st.integers(0, max_steps))
    steps = []
    for _ in range(n):
        kind = draw(st.sampled_from(['in', 'in', 'out', 'out', 'burst', 'threads'] if depth == 0 and threads
                                    else ['in', 'out']))
        if kind == 'threads':
            nw = draw(st.integers(2, 3))
            workers = [draw(step_lists(ins, outs, values, 3, in_behs, out_behs, threads=False, depth=1, worker=(k, nw)))
                       for k in range(nw)]
            if draw(st.booleans()):
                for ws in workers:
                    for x in ws:
                        if x['t'] in ('in', 'out') and x['beh'] in ('ret', 'raise', 'discard', 'discard_raise', 'force'):
                            x['sync'] = True
                            break
            steps.append(dict(t='threads', workers=workers))
        elif kind == 'burst' and outs:
            # the same output alias many times in a row: ordinals pass 9 (and 19)
            i = draw(st.integers(0, len(outs) - 1))
            k = draw(st.sampled_from([3, 10, 12, 21]))
            for _ in range(k):
                steps.append(draw(out_step(outs, st.integers(0, 3), behs=('ret',), only=i)))
        elif kind == 'in' and ins:
            steps.append(draw(in_step(ins, values, in_behs)))
        elif outs:
            if worker is not None:
                # thread-private output aliases: worker k of n may only use output decls with index = k (mod n)
                mine = [i for i in range(len(outs)) if i % worker[1] == worker[0]]
                if not mine:
                    continue
                steps.append(draw(out_step(outs, values, out_behs, only=draw(st.sampled_from(mine)))))
            else:
                steps.append(draw(out_step(outs, values, out_behs)))
    return steps


@st.composite
def programs(draw, values=None, max_steps=10, in_behs=('ret', 'ret', 'ret', 'raise', 'nested'),
             out_behs=('ret', 'ret', 'ret', 'raise'), endings=('return', 'return', 'raise'), threads=True,
             in_extra=None, out_extra=None, params=None, extractors=('none',), swallowed_interrupts=False,
             ending_excs=('Err',)):
    values = values if values is not None else V.small_values
    ins, outs = fix_decls(draw(st.lists(input_decls(in_extra), max_size=3)), draw(st.lists(output_decls(out_extra), max_size=3)))
    steps = draw(step_lists(ins, outs, values, max_steps, in_behs, out_behs, threads=threads)) if (ins or outs) else []
    prog = dict(klass=draw(st.sampled_from(['instance', 'instance', 'class'])), ins=ins, outs=outs, steps=steps,
                ending=draw(st.sampled_from(endings)), result=draw(values),
                extractor=draw(st.sampled_from(extractors)))
    if params is not None:
        prog['params'] = draw(params)
    if len(ending_excs) > 1:
        prog['ending_exc'] = draw(st.sampled_from(list(ending_excs)))    # what a raising operation raises
    calls = [s for s in steps if s['t'] in ('in', 'out')]
    if swallowed_interrupts and calls and draw(st.sampled_from([False, False, True])):
        # an intercepted call is cut short by an interrupt-style exception that the operation swallows
        for k in draw(st.sets(st.integers(0, len(calls) - 1), min_size=1, max_size=2)):
            calls[k]['beh'] = 'interrupt'
            calls[k]['swallow_interrupt'] = True
    return assign_sids(prog)


def shape_classes(prog):
    """Labels for the evidence counters: which shapes a program exercises."""
    out = set()
    steps = list(iter_steps(prog['steps']))
    ins = [s for s in steps if s['t'] == 'in']
    outs = [s for s in steps if s['t'] == 'out']
    if any(s['t'] == 'threads' for s in prog['steps']):
        out.add('threads')
    for s in ins:
        d = prog['ins'][s['i']]
        out.add('in:' + d['kind'])
        if d.get('resolver'):
            out.add('resolver')
        if d.get('capture', 'all') not in ('all',):
            out.add('capture-subset')
        if d.get('handler') == 'wrap':
            out.add('in-handler')
        if s['beh'] == 'nested':
            out.add('nested')
        if s['beh'] == 'raise':
            out.add('in-raises')
        if s.get('swallow_interrupt'):
            out.add('swallowed-interrupt')
    for s in outs:
        if s.get('swallow_interrupt'):
            out.add('swallowed-interrupt')
        d = prog['outs'][s['i']]
        out.add('out:' + d['kind'])
        if d.get('handler') == 'wrap':
            out.add('out-handler')
        if s['beh'] == 'raise':
            out.add('out-raises')
    per_alias = {}
    for s in outs:
        per_alias[s['i']] = per_alias.get(s['i'], 0) + 1
    if per_alias and max(per_alias.values()) > 9:
        out.add('alias>9calls')
    if prog.get('klass') == 'class':
        out.add('class-level')
    if prog.get('ending') == 'raise':
        out.add('op-raises')
    return out, len(ins), len(outs)
