"""Entry point (python -m pbt.cli): keeps pbt.runner a single module object (not __main__), so that the
Violation class raised by property modules is the one the runner catches."""
import sys

from pbt.runner import main

if __name__ == '__main__':
    sys.exit(main())
