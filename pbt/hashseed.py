"""Persistent child interpreters with distinct PYTHONHASHSEED values (DESIGN.md 2.8).
Parent <-> child: length-prefixed pickles of plain dict/list descriptions over pipes."""
import os
import pickle
import struct
import subprocess
import sys

VERIF = os.path.dirname(os.path.dirname(os.path.abspath(__file__)))
SEEDS = ['0', '1', '2', '12345', '4294967295']


def send(f, obj):
    data = pickle.dumps(obj, protocol=2)
    f.write(struct.pack('>I', len(data)))
    f.write(data)
    f.flush()


def recv(f):
    head = f.read(4)
    if len(head) < 4:
        raise EOFError('child closed the pipe')
    n = struct.unpack('>I', head)[0]
    return pickle.loads(f.read(n))


class Child(object):
    def __init__(self, hashseed, preimport=False):
        """preimport: the child imports every module of the playback package before doing anything (a process that
        also uses the other cassettes, the studio, the file interception ...), else only what recording needs."""
        env = dict(os.environ, PYTHONHASHSEED=str(hashseed), PBT_CHILD_PREIMPORT='1' if preimport else '')
        self.hashseed = str(hashseed)
        self.preimport = bool(preimport)
        self.p = subprocess.Popen([sys.executable, '-m', 'pbt.hashseed_child'], stdin=subprocess.PIPE,
                                  stdout=subprocess.PIPE, env=env, cwd=VERIF)
        hello = recv(self.p.stdout)
        if hello.get('hashseed') != self.hashseed:
            raise RuntimeError('child started with hash seed %r, wanted %r' % (hello, self.hashseed))
        if self.preimport and not hello.get('preimported'):
            raise RuntimeError('child could not import the playback modules: %r' % (hello,))

    def call(self, msg):
        send(self.p.stdin, msg)
        out = recv(self.p.stdout)
        if 'harness_error' in out:
            raise RuntimeError('child %s: %s' % (self.hashseed, out['harness_error']))
        if 'src_error' in out:
            from pbt.runner import Violation
            raise Violation('code under test raised in the process with PYTHONHASHSEED=%s:\n%s' % (
                self.hashseed, out['src_error'][-1500:]), 'unexpected-exception')
        return out

    def close(self):
        try:
            send(self.p.stdin, {'cmd': 'quit'})
        except Exception:  # pylint: disable=broad-except
            pass
        try:
            self.p.wait(5)
        except Exception:  # pylint: disable=broad-except
            self.p.kill()


def variant(d):
    """A structurally equal description built in another order: set members and dict items reversed."""
    if isinstance(d, list):
        return [variant(x) for x in d]
    if isinstance(d, dict):
        t = d.get('t')
        if t in ('set', 'dict', 'obj'):
            return {'t': t, 'v': [variant(x) for x in reversed(d['v'])]}
        if t == 'tuple':
            return {'t': 'tuple', 'v': [variant(x) for x in d['v']]}
        if t == 'shared':
            return {'t': 'shared', 'id': d['id'], 'v': variant(d['v'])}
        return dict(d)
    return d


def big_sets(d):
    """Number of sets with >= 2 members in a description (known finding: set order is not canonical in keys)."""
    n = 0
    if isinstance(d, list):
        return sum(big_sets(x) for x in d)
    if isinstance(d, dict):
        if d.get('t') == 'set' and len(d['v']) >= 2:
            n += 1
        v = d.get('v')
        if isinstance(v, list):
            n += sum(big_sets(x) for x in v)
        elif isinstance(v, dict):
            n += big_sets(v)
    return n
