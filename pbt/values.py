"""Value descriptions in the serializer's faithful domain (DESIGN.md 2.2).

Cases must be JSON-serialisable, so Hypothesis generates *descriptions* and build() makes the Python value:

  None / bool / int / float / str      themselves
  [d, ...]                              list
  {"t": "tuple", "v": [d...]}           tuple
  {"t": "set", "v": [d...]}             set (hashable members)
  {"t": "dict", "v": [[key, d]...]}     str-keyed dict, insertion order preserved
  {"t": "bytes", "v": "<hex>"}          bytes
  {"t": "obj", "v": [[attr, d]...]}     pbt.values.Obj instance (non-empty state)
  {"t": "err", "v": name}               exception instance of a harness exception class
  {"t": "shared", "id": n, "v": d}      the same object wherever the same id occurs within one build memo

Two generator families (jsonpickle 0.9.3 / py3.12 mis-resolves py/id after an instance whose state holds a list):
objects-without-aliasing and aliasing-without-list-state. has_ref_hazard() is an identity-based predicate,
independent of jsonpickle; faithful() is the operational guard decode(encode(v)) == v.
"""
import binascii

from hypothesis import strategies as st
from jsonpickle import encode, decode


class Obj(object):
    """Plain importable object with structural equality."""

    def __init__(self, **kw):
        self.__dict__.update(kw)

    def __eq__(self, other):
        return type(other) is type(self) and other.__dict__ == self.__dict__

    def __ne__(self, other):
        return not self == other

    __hash__ = None

    def __repr__(self):
        return 'Obj(%s)' % ', '.join('%s=%r' % kv for kv in sorted(self.__dict__.items()))


class _Ambiguous(object):
    def __bool__(self):
        raise ValueError('The truth value of an element-wise comparison is ambiguous')

    __nonzero__ = __bool__


class Vector(object):
    """Array-like value (as numpy arrays / pandas frames): comparisons are element-wise and their result has no truth
    value; not hashable. Serialises and copies like any plain object. The harness compares it with same_vector()."""

    def __init__(self, items=()):
        self.items = list(items)

    def __eq__(self, other):
        return _Ambiguous()

    def __ne__(self, other):
        return _Ambiguous()

    __hash__ = None

    def __repr__(self):
        return 'Vector(%r)' % (self.items,)


class Opaque(object):
    """Value with identity equality (no __eq__, as most plain service objects): equal only to itself, hashable by
    identity. Serialises and copies like any plain object. The harness compares it with same_vector()."""

    def __init__(self, items=()):
        self.items = list(items)

    def __repr__(self):
        return 'Opaque(%r)' % (self.items,)


def same_vector(a, b):
    return type(a) in (Vector, Opaque) and type(b) is type(a) and a.items == b.items


def has_vector(x):
    if type(x) in (Vector, Opaque):
        return True
    if isinstance(x, dict):
        return any(has_vector(v) for v in x.values())
    if isinstance(x, (list, tuple)):
        return any(has_vector(v) for v in x)
    return False


def deep_same(a, b):
    """a == b and same type, for structures that may hold Vector values (which cannot be compared with ==)."""
    if not (has_vector(a) or has_vector(b)):
        return a == b and type(a) is type(b)
    if type(a) is not type(b):
        return False
    if type(a) in (Vector, Opaque):
        return same_vector(a, b)
    if isinstance(a, dict):
        return set(a) == set(b) and all(deep_same(a[k], b[k]) for k in a)
    if isinstance(a, (list, tuple)):
        return len(a) == len(b) and all(deep_same(x, y) for x, y in zip(a, b))
    return a == b


class Err(Exception):
    pass


class Err2(Exception):
    pass


class Interrupt(BaseException):
    """Interrupt-style termination (like KeyboardInterrupt/SystemExit)."""


class Unencodable(object):
    """Captured argument that makes key building fail: the serializer cannot encode it."""

    def __getstate__(self):
        raise RuntimeError('unencodable on purpose')

    def __eq__(self, other):
        return isinstance(other, Unencodable)

    def __deepcopy__(self, memo):
        return self

    def __copy__(self):
        return self

    __hash__ = None


ERRS = {'Err': Err, 'Err2': Err2, 'ValueError': ValueError, 'KeyError': KeyError, 'Interrupt': Interrupt,
        'AssertionError': AssertionError, 'RuntimeError': RuntimeError, 'StopIteration': StopIteration,
        'LookupError': LookupError}
ENDING_EXCS = ['Err', 'Err', 'AssertionError', 'ValueError', 'KeyError', 'RuntimeError', 'StopIteration']


def build(d, memo=None):
    if memo is None:
        memo = {}
    if d is None or isinstance(d, (bool, int, float, str)):
        return d
    if isinstance(d, list):
        return [build(x, memo) for x in d]
    t = d['t']
    if t == 'tuple':
        return tuple(build(x, memo) for x in d['v'])
    if t == 'set':
        return set(build(x, memo) for x in d['v'])
    if t == 'dict':
        return dict((k, build(v, memo)) for k, v in d['v'])
    if t == 'bytes':
        return binascii.unhexlify(d['v'])
    if t == 'obj':
        return Obj(**dict((k, build(v, memo)) for k, v in d['v']))
    if t == 'err':
        return ERRS[d['v']]()
    if t == 'unencodable':
        return Unencodable()
    if t == 'vector':
        return Vector(build(d['v'], memo))
    if t == 'opaque':
        return Opaque(build(d['v'], memo))
    if t == 'shared':
        if d['id'] not in memo:
            memo[d['id']] = build(d['v'], memo)
        return memo[d['id']]
    raise ValueError(d)


def faithful(value):
    try:
        return decode(encode(value, unpicklable=True)) == value
    except Exception:  # pylint: disable=broad-except
        return False


def has_ref_hazard(value):
    """True when some list/instance identity occurs twice and some instance holds a list in its state
    (conservative, identity based; tuples, sets, dicts, bytes and strings are not reference-tracked)."""
    seen = set()
    repeated = [False]
    obj_with_list = [False]

    def walk(v, inside_obj):
        if isinstance(v, list):
            if id(v) in seen:
                repeated[0] = True
                return
            seen.add(id(v))
            if inside_obj:
                obj_with_list[0] = True
            for x in v:
                walk(x, inside_obj)
        elif isinstance(v, (tuple, set, frozenset)):
            for x in v:
                walk(x, inside_obj)
        elif isinstance(v, dict):
            for x in v.values():
                walk(x, inside_obj)
        elif hasattr(v, '__dict__') and not isinstance(v, type):
            if id(v) in seen:
                repeated[0] = True
                return
            seen.add(id(v))
            for x in v.__dict__.values():
                walk(x, True)

    walk(value, False)
    return repeated[0] and obj_with_list[0]


# ------------------------------------------------------------------------------------------------
# strategies over descriptions

_ATTRS = ['a', 'b', 'c', 'val']
_hostile = list(u'"\'\\{}[],=:/ \n\t#%.é中\u2028')
texts = st.one_of(st.text(max_size=6), st.text(alphabet=st.sampled_from(_hostile + list(u'abk')), max_size=6))
keys = texts.filter(lambda k: not k.startswith('py/'))
scalars = st.one_of(
    st.none(), st.booleans(), st.integers(-5, 5), st.integers(), st.floats(allow_nan=False),
    texts, st.binary(max_size=6).map(lambda b: {'t': 'bytes', 'v': binascii.hexlify(b).decode()}))
hashable = st.recursive(
    st.one_of(st.none(), st.booleans(), st.integers(-3, 3), st.text(max_size=3),
              st.binary(max_size=3).map(lambda b: {'t': 'bytes', 'v': binascii.hexlify(b).decode()})),
    lambda c: st.lists(c, max_size=2).map(lambda v: {'t': 'tuple', 'v': v}), max_leaves=3)


def _dict_of(children, max_size=3):
    return st.lists(st.tuples(keys, children), max_size=max_size, unique_by=lambda kv: kv[0]).map(
        lambda kvs: {'t': 'dict', 'v': [list(kv) for kv in kvs]})


def _obj_of(children):
    return st.lists(st.tuples(st.sampled_from(_ATTRS), children), min_size=1, max_size=3,
                    unique_by=lambda kv: kv[0]).map(lambda kvs: {'t': 'obj', 'v': [list(kv) for kv in kvs]})


def _set_of():
    return st.lists(hashable, max_size=3).map(lambda v: {'t': 'set', 'v': v})


def _containers(c, objects=True):
    opts = [st.lists(c, max_size=3), st.lists(c, max_size=3).map(lambda v: {'t': 'tuple', 'v': v}),
            _dict_of(c), _set_of()]
    if objects:
        opts.append(_obj_of(c))
    return st.one_of(*opts)


STATS = {'filter_accepted': 0, 'filter_rejected': 0}


def _ok(d):
    ok = faithful(build(d))
    STATS['filter_accepted' if ok else 'filter_rejected'] += 1
    return ok


# family A: objects with any faithful state, no aliasing
values = st.recursive(scalars, _containers, max_leaves=8).filter(_ok)
small_values = st.recursive(scalars, _containers, max_leaves=4).filter(_ok)
# tree-shaped values without objects (JSON-ish + tuples/sets/bytes)
plain_values = st.recursive(scalars, lambda c: _containers(c, objects=False), max_leaves=6).filter(_ok)

# family B: aliasing allowed; objects hold only list-free state
_listfree = st.recursive(scalars, lambda c: st.one_of(
    st.lists(c, max_size=2).map(lambda v: {'t': 'tuple', 'v': v}), _set_of()), max_leaves=3)
_b_objs = _obj_of(_listfree)


def aliasing_values(pool_size=2):
    """Values in which lists / objects from a small pool of ids may occur several times (shared identity)."""
    base = st.one_of(scalars, _b_objs)

    def extend(c):
        shared = st.tuples(st.integers(0, pool_size - 1), st.one_of(st.lists(c, max_size=2), _b_objs)).map(
            lambda iv: {'t': 'shared', 'id': iv[0], 'v': iv[1]})
        return st.one_of(st.lists(c, max_size=3), st.lists(c, max_size=3).map(lambda v: {'t': 'tuple', 'v': v}),
                         _dict_of(c), shared)

    def consistent(d):
        # one id -> one description (first occurrence wins at build time anyway, keep cases readable)
        return _ok(d)

    return st.recursive(base, extend, max_leaves=8).filter(consistent)


# JSON-native metadata (what every cassette, including the S3 metadata object filter, can carry)
json_scalars = st.one_of(st.none(), st.booleans(), st.integers(-100, 100), st.floats(allow_nan=False, allow_infinity=False),
                         st.text(max_size=5))
json_values = st.recursive(json_scalars, lambda c: st.one_of(
    st.lists(c, max_size=3),
    st.dictionaries(st.text(max_size=3).filter(lambda k: not k.startswith('py/')), c, max_size=3)), max_leaves=5)


# mutable shapes and in-place mutations (C11)
def is_mutable(v):
    return isinstance(v, (list, dict, set, Obj, Vector, Opaque))


def mutate_in_place(v, how):
    """Apply an in-place mutation to a built value; returns True if something changed. `how` is an int
    selector so that the choice is part of the generated case."""
    if isinstance(v, list):
        ops = ['append', 'clear', 'setitem', 'nested']
        op = ops[how % len(ops)]
        if op == 'append' or not v:
            v.append('MUTATED')
            return True
        if op == 'clear':
            del v[:]
            return True
        if op == 'setitem':
            v[0] = 'MUTATED'
            return True
        for x in v:
            if is_mutable(x):
                return mutate_in_place(x, how // len(ops))
        v.append('MUTATED')
        return True
    if isinstance(v, dict):
        ops = ['setitem', 'clear', 'nested']
        op = ops[how % len(ops)]
        if op == 'clear' and v:
            v.clear()
            return True
        if op == 'nested':
            for x in v.values():
                if is_mutable(x):
                    return mutate_in_place(x, how // len(ops))
        v['MUTATED'] = 1
        return True
    if isinstance(v, set):
        v.add('MUTATED')
        return True
    if type(v) in (Vector, Opaque):
        v.items.append('MUTATED')
        return True
    if isinstance(v, Obj):
        if how % 2:
            for x in v.__dict__.values():
                if is_mutable(x):
                    return mutate_in_place(x, how // 2)
        v.mutated = 'MUTATED'
        return True
    if isinstance(v, tuple):
        for x in v:
            if is_mutable(x) or isinstance(x, tuple):
                if mutate_in_place(x, how):
                    return True
    return False
