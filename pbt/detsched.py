"""Deterministic thread scheduler (DESIGN.md 2.6).

A controller (the caller's thread) hands a baton to exactly one controlled thread at a time; the thread runs until its
next switch point and hands the baton back. Switch points: sys.settrace line (or opcode) events in the watched files,
every operation of the cooperative Lock / Event / Thread, and explicit switch_point() calls made by harness callbacks.
A schedule is the sequence of thread names chosen by the chooser; it is data and can be generated, shrunk, replayed.
"""
import itertools
import sys
import threading

_RealThread = threading.Thread
_RealSemaphore = threading.Semaphore


class Deadlock(Exception):
    pass


class StepLimit(Exception):
    pass


class LostControl(Exception):
    """A controlled thread blocked outside the scheduler's control: a harness limitation, never a violation."""


class SchedulerAbort(BaseException):
    """Raised inside controlled threads to unwind them when a run is abandoned."""


class TState(object):
    def __init__(self, name):
        self.name = name
        self.go = _RealSemaphore(0)
        self.status = 'new'      # runnable | running | lock | event | join | done
        self.wait_obj = None
        self.timeout = None
        self.others_stepped = False
        self.exc = None
        self.point = None
        self.timed_out = False
        self.in_storage = False
        self.thread = None


class Scheduler(object):
    def __init__(self, watch_files, opcode=False, max_steps=20000):
        self.ts = {}
        self.order = []
        self.back = _RealSemaphore(0)
        self.cur = None
        self.watch = tuple(watch_files)
        self.opcode = opcode
        self.steps = 0
        self.max_steps = max_steps
        self.trace = []          # chosen thread per step
        self.points = []         # (thread, point) per step, for diagnostics
        self.tl = threading.local()
        self.aborting = False
        self.preemptions = 0
        self.timer_firings = 0
        self.invariant = None    # callable(scheduler) run by the controller before every step
        self.step_timeout = 30.0

    # ---- called inside controlled threads
    def me(self):
        return getattr(self.tl, 'st', None)

    def _yield(self, status, obj=None, timeout=None, point=None):
        st = self.me()
        if st is None:
            return
        st.status, st.wait_obj, st.timeout, st.point = status, obj, timeout, point
        if status == 'event':
            st.others_stepped = False
            st.timed_out = False
        self.back.release()
        st.go.acquire()
        if self.aborting:
            raise SchedulerAbort()

    def switch_point(self, point=None):
        self._yield('runnable', point=point)

    def _tracer(self, frame, event, arg):
        fn = frame.f_code.co_filename
        if not fn.endswith(self.watch):
            return None
        if self.opcode:
            frame.f_trace_opcodes = True
        if (event == 'opcode') if self.opcode else (event == 'line'):
            self.switch_point((fn.rsplit('/', 1)[-1], frame.f_lineno, frame.f_lasti if self.opcode else None))
        return self._tracer

    def spawn(self, name, target, args=()):
        st = TState(name)
        self.ts[name] = st
        self.order.append(name)

        def run():
            self.tl.st = st
            st.go.acquire()
            if self.aborting:
                st.status = 'done'
                self.back.release()
                return
            sys.settrace(self._tracer)
            try:
                target(*args)
            except SchedulerAbort:
                pass
            except BaseException as e:  # pylint: disable=broad-except
                st.exc = e
            finally:
                sys.settrace(None)
                st.status = 'done'
                self.back.release()

        th = _RealThread(target=run, name=name, daemon=True)
        st.thread = th
        st.status = 'runnable'
        th.start()
        return st

    # ---- controller
    def enabled(self, st):
        if st.status == 'runnable':
            return True
        if st.status == 'lock':
            return not st.wait_obj._held
        if st.status == 'event':
            if st.wait_obj._flag:
                return True
            if st.timeout is not None:
                # a timer may fire only after another thread has stepped, or when nothing else can run (fairness)
                others = [o for o in self.ts.values() if o is not st and o.status != 'done' and self._enabled_nontimer(o)]
                return st.others_stepped or not others
            return False
        if st.status == 'join':
            return self.ts[st.wait_obj].status == 'done' if st.wait_obj in self.ts else True
        return False

    def _enabled_nontimer(self, o):
        if o.status == 'event' and not o.wait_obj._flag:
            return False
        return self.enabled(o)

    def is_timer_choice(self, st):
        return st.status == 'event' and not st.wait_obj._flag

    def run(self, chooser):
        """chooser(step, current name or None, [enabled names], scheduler) -> name. Runs until all threads are done."""
        try:
            while True:
                live = [self.ts[n] for n in self.order if self.ts[n].status != 'done']
                if not live:
                    return
                if self.invariant is not None:
                    self.invariant(self)
                en = [s.name for s in live if self.enabled(s)]
                if not en:
                    raise Deadlock(dict((s.name, (s.status, s.point)) for s in live))
                self.steps += 1
                if self.steps > self.max_steps:
                    raise StepLimit()
                name = chooser(self.steps, self.cur, en, self)
                st = self.ts[name]
                if self.cur is not None and name != self.cur and self.cur in en:
                    self.preemptions += 1
                if self.is_timer_choice(st):
                    st.timed_out = True
                    self.timer_firings += 1
                for o in self.ts.values():
                    if o is not st:
                        o.others_stepped = True
                self.trace.append(name)
                self.points.append((name, st.point))
                self.cur = name
                st.status = 'running'
                st.go.release()
                if not self.back.acquire(timeout=self.step_timeout):
                    raise LostControl('thread %s did not reach a switch point within %s s (last point %r): it is '
                                      'blocked on something the scheduler does not control' % (
                                          name, self.step_timeout, st.point))
        except BaseException:
            self.abort()
            raise

    def abort(self):
        """Unwind every controlled thread that is still parked."""
        self.aborting = True
        for st in self.ts.values():
            if st.status != 'done':
                st.go.release()
        for st in self.ts.values():
            if st.thread is not None:
                st.thread.join(1.0)


SCHED = None


def current():
    return SCHED


class CoLock(object):
    def __init__(self):
        self._held = False
        self._owner = None

    def acquire(self, blocking=True, timeout=-1):
        s = SCHED
        if s is None or s.me() is None:
            assert not self._held
            self._held = True
            return True
        s.switch_point('lock.acquire')
        while self._held:
            s._yield('lock', self, point='lock.blocked')
        self._held = True
        self._owner = s.me().name
        return True

    def release(self):
        self._held = False
        self._owner = None
        s = SCHED
        if s is not None and s.me() is not None:
            s.switch_point('lock.release')

    def locked(self):
        return self._held

    __enter__ = acquire

    def __exit__(self, *a):
        self.release()


class CoRLock(CoLock):
    """Re-entrant cooperative lock."""

    def __init__(self):
        CoLock.__init__(self)
        self._depth = 0

    def acquire(self, blocking=True, timeout=-1):
        s = SCHED
        me = s.me().name if (s is not None and s.me() is not None) else '<uncontrolled>'
        if self._held and self._owner == me:
            self._depth += 1
            return True
        if s is None or s.me() is None:
            assert not self._held
            self._held, self._owner, self._depth = True, me, 1
            return True
        s.switch_point('rlock.acquire')
        while self._held:
            s._yield('lock', self, point='rlock.blocked')
        self._held, self._owner, self._depth = True, me, 1
        return True

    def release(self):
        self._depth -= 1
        if self._depth > 0:
            return
        self._held = False
        self._owner = None
        s = SCHED
        if s is not None and s.me() is not None:
            s.switch_point('rlock.release')

    __enter__ = acquire

    def __exit__(self, *a):
        self.release()


class CoEvent(object):
    def __init__(self):
        self._flag = False

    def is_set(self):
        return self._flag

    isSet = is_set

    def set(self):
        self._flag = True
        s = SCHED
        if s is not None and s.me() is not None:
            s.switch_point('event.set')

    def clear(self):
        self._flag = False

    def wait(self, timeout=None):
        s = SCHED
        if s is None or s.me() is None:
            return self._flag
        if self._flag:
            s.switch_point('event.wait')
            return True
        s._yield('event', self, timeout, point='event.wait')
        return self._flag


class CoThread(object):
    _n = itertools.count()

    def __init__(self, group=None, target=None, name=None, args=(), kwargs=None, daemon=None):
        self._target = target
        self.name = 'T%d' % next(self._n)
        self._args = args
        self._started = False
        self.daemon = True

    def setDaemon(self, d):  # noqa: N802
        pass

    def start(self):
        if self._started:
            raise RuntimeError('threads can only be started once')
        self._started = True
        SCHED.spawn(self.name, self._target, self._args)
        s = SCHED
        if s.me() is not None:
            s.switch_point('thread.start')

    def join(self, timeout=None):
        if not self._started:
            raise RuntimeError('cannot join thread before it is started')
        s = SCHED
        if s.me() is None:
            raise RuntimeError('join from an uncontrolled thread')
        while s.ts[self.name].status != 'done':
            s._yield('join', self.name, point='thread.join')

    def is_alive(self):
        return self._started and SCHED.ts[self.name].status != 'done'

    isAlive = is_alive


def install(scheduler):
    global SCHED
    SCHED = scheduler
    CoThread._n = itertools.count()


# ---- choosers

def pct_chooser(prio_order, changes):
    """PCT-style: threads get priorities in order of first appearance from prio_order (a permutation of small ints,
    higher runs first); at each change step the running thread's priority drops below all others."""
    prios = {}
    pool = list(prio_order)
    state = {'low': -1, 'changes': sorted(set(changes))}

    def choose(step, cur, enabled, sched):
        for n in enabled:
            if n not in prios:
                prios[n] = pool.pop(0) if pool else 0
        ch = state['changes']
        if ch and step >= ch[0]:
            ch.pop(0)
            if cur in prios:
                prios[cur] = state['low']
                state['low'] -= 1
        return max(enabled, key=lambda n: (prios[n], n))

    return choose


def random_chooser(seed, switch_prob=0.3):
    import random
    rnd = random.Random(seed)

    def choose(step, cur, enabled, sched):
        if cur in enabled and rnd.random() > switch_prob:
            return cur
        return enabled[rnd.randrange(len(enabled))]

    return choose


def replay_chooser(trace):
    it = iter(trace)

    def choose(step, cur, enabled, sched):
        try:
            n = next(it)
        except StopIteration:
            n = cur if cur in enabled else enabled[0]
        if n not in enabled:
            # the code under test has changed since the schedule was recorded: replay is best effort from here on
            n = cur if cur in enabled else enabled[0]
        return n

    return choose


def dfs_explore(run, bound, shard=0, nshards=1, free_bound=3, max_runs=400000, on_run=None):
    """Stateless DFS over schedules: run(chooser) executes one complete schedule from the start and returns the
    Scheduler (raising on an oracle failure). Enumerates every schedule with <= bound preemptions and <= free_bound
    non-default choices at points where the running thread cannot continue. Work is split between shards by the step
    index of the first deviation from the default (non-preemptive) schedule. Returns (runs, complete)."""
    stack = [([], 0, 0)]
    runs = 0
    while stack:
        prefix, used, free_used = stack.pop()
        forced = dict(prefix)
        branch = []
        last_forced = prefix[-1][0] if prefix else 0

        def chooser(step, cur, enabled, sched):
            if step in forced:
                n = forced[step]
                if n not in enabled:
                    raise Deadlock('prefix not replayable at step %d' % step)
                return n
            default = cur if cur in enabled else enabled[0]
            if step > last_forced:
                for n in enabled:
                    if n == default:
                        continue
                    if cur in enabled:
                        if used < bound:
                            branch.append((step, n, 1, 0))
                    elif free_used < free_bound:
                        branch.append((step, n, 0, 1))
            return default

        top = not prefix
        sched = run(chooser)
        runs += 1
        if on_run is not None and not (nshards > 1 and top and shard != 0):
            on_run(sched)
        for step, n, dp, df in branch:
            if nshards > 1 and top and (step % nshards) != shard:
                continue
            stack.append((prefix + [(step, n)], used + dp, free_used + df))
        if runs > max_runs:
            return runs, False
    return runs, True
