"""Fault enumeration over programs (C04, C05, C18): fault descriptions, their application to a program, and one
observed run of (undecorated twin, decorated program on a spy cassette)."""
import copy

from pbt import progsim as PS, values as V, zoo

UNENC = {'t': 'unencodable'}
VECTOR = {'t': 'vector', 'v': [1, 2, 3]}


def top_level_calls(prog):
    return [s for s in prog['steps'] if s['t'] in ('in', 'out')]


def applicable_faults(prog, kinds=None, extra=()):
    """All single faults applicable to a program (sequential programs: faults target top-level steps).
    extra: optional families - 'vector' (array-like values whose comparisons have no truth value)."""
    out = []
    for idx, s in enumerate(prog['steps']):
        if 'vector' in extra and s['t'] in ('in', 'out'):
            out.append({'kind': 'vector_ret', 'at': idx})
            if s['t'] == 'out' or prog['ins'][s['i']]['kind'] != 'property':
                out.append({'kind': 'vector_arg', 'at': idx})
        if s['t'] == 'in':
            d = prog['ins'][s['i']]
            if d['kind'] != 'property' and d.get('capture', 'all') in ('all', 'pos1', 'pos1_name_b'):
                out.append({'kind': 'unencodable_arg', 'at': idx})
            if d.get('handler') == 'wrap':
                out.append({'kind': 'hfail', 'at': idx})
            if d.get('resolver'):
                # the key cannot be built because alias resolution itself fails: the resolver raises / its mapping
                # lacks the placeholder of the alias template
                out.append({'kind': 'resolver_raises', 'at': idx})
                out.append({'kind': 'resolver_no_placeholder', 'at': idx})
            out.append({'kind': 'unserialisable_ret', 'at': idx})
        if s['t'] == 'out':
            d = prog['outs'][s['i']]
            if d.get('handler') == 'wrap':
                out.append({'kind': 'hfail', 'at': idx})
            out.append({'kind': 'unserialisable_out_arg', 'at': idx})
            out.append({'kind': 'unserialisable_ret', 'at': idx})
        if s['t'] in ('in', 'out'):
            for k in ('body_discard', 'body_discard_raise', 'body_force', 'body_raise', 'body_interrupt',
                      'body_interrupt_swallowed'):
                out.append({'kind': k, 'at': idx})
    for idx in range(len(prog['steps']) + 1):
        for k in ('op_discard', 'op_force', 'op_raise', 'op_interrupt'):
            out.append({'kind': k, 'at': idx})
        if 'op_in_body' in extra and idx < len(prog['steps']) and prog['steps'][idx]['t'] in ('in', 'out'):
            out.append({'kind': 'body_discard_then_op', 'at': idx})
        if 'exits' in extra:
            for k in ('op_exit0', 'op_exit', 'op_ctrl_c'):
                out.append({'kind': k, 'at': idx})
    for mode in ('raises', 'junk_none', 'junk_int', 'junk_list', 'ok'):
        out.append({'kind': 'extractor', 'mode': mode})
    for mode in ('junk_keys', 'junk_pairs', 'junk_str'):
        out.append({'kind': 'extractor_odd', 'mode': mode})
    if 'extractor_discards' in extra:
        out.append({'kind': 'extractor_odd', 'mode': 'discards'})
    out.append({'kind': 'save_fails'})
    if 'bad_params' in extra:
        # misconfigured recording parameters: the sampling decision at the end of the operation raises
        out.append({'kind': 'bad_params', 'mode': 'rate_raises'})
        out.append({'kind': 'bad_params', 'mode': 'rate_str'})
    if kinds is not None:
        out = [f for f in out if f['kind'] in kinds]
    return out


INSERTS = {'op_discard': {'t': 'discard'}, 'op_force': {'t': 'force'}, 'op_raise': {'t': 'raise_now'},
           'op_interrupt': {'t': 'interrupt_now'},
           # the interpreter's own interrupt-style exceptions: a clean exit (code 0 / none) and Ctrl-C
           'op_exit0': {'t': 'interrupt_now', 'exc': 'SystemExit0'}, 'op_exit': {'t': 'interrupt_now', 'exc': 'SystemExit'},
           'op_ctrl_c': {'t': 'interrupt_now', 'exc': 'KeyboardInterrupt'}}


def apply_faults(prog, faults):
    """Returns (program with the faults applied, config flags). Step-targeted faults are applied first, insertions
    last and from the back so that indices stay valid."""
    p = copy.deepcopy(prog)
    flags = {}
    for f in faults:
        k = f['kind']
        if k in INSERTS or k in ('extractor', 'extractor_odd', 'save_fails', 'bad_params'):
            continue
        s = p['steps'][f['at']]
        if k == 'unencodable_arg':
            s['a'] = UNENC
        elif k == 'hfail':
            s['hfail'] = True
        elif k in ('resolver_raises', 'resolver_no_placeholder'):
            s['resolver_fault'] = k
        elif k == 'unserialisable_ret':
            s['ret'] = UNENC
        elif k == 'unserialisable_out_arg':
            s['a'] = UNENC
        elif k == 'vector_ret':
            s['ret'] = VECTOR
        elif k == 'vector_arg':
            s['a'] = VECTOR
        elif k == 'body_discard':
            s['beh'] = 'discard'
        elif k == 'body_discard_raise':
            s['beh'] = 'discard_raise'
        elif k == 'body_force':
            s['beh'] = 'force'
        elif k == 'body_raise':
            s['beh'] = 'raise'
        elif k == 'body_interrupt':
            s['beh'] = 'interrupt'
        elif k == 'body_interrupt_swallowed':
            s['beh'] = 'interrupt'
            s['swallow_interrupt'] = True
        elif k == 'body_discard_then_op':
            s['beh'] = 'discard_then_op'
    for f in sorted([f for f in faults if f['kind'] in INSERTS], key=lambda f: -f['at']):
        p['steps'].insert(f['at'], dict(INSERTS[f['kind']]))
        if f['kind'] == 'op_raise' and p.get('ending_exc'):
            p['steps'][f['at']]['exc'] = p['ending_exc']       # ordinary exceptions of several types
    for f in faults:
        if f['kind'] in ('extractor', 'extractor_odd'):
            p['extractor'] = f['mode']
            p['extractor_meta'] = [['user_key', 'user value'], ['n', 3]]
        elif f['kind'] == 'save_fails':
            flags['save_fails'] = True
        elif f['kind'] == 'bad_params':
            p['params_fault'] = f['mode']
            flags['bad_params'] = f['mode']
    return PS.assign_sids(p), flags


def compatible(f1, f2):
    """Pairs of faults that can be combined."""
    if f1 == f2:
        return False
    if 'at' in f1 and 'at' in f2 and f1['at'] == f2['at'] and f1['kind'] not in INSERTS and f2['kind'] not in INSERTS:
        a, b = f1['kind'], f2['kind']
        body = {'body_discard', 'body_discard_raise', 'body_force', 'body_raise', 'body_interrupt',
                'body_interrupt_swallowed', 'body_discard_then_op'}
        if a in body and b in body:
            return False
        if {a, b} == {'unencodable_arg', 'unserialisable_out_arg'}:
            return False
        if a.startswith('resolver_') and b.startswith('resolver_'):
            return False
        if 'vector_arg' in (a, b) and (a.startswith('un') or b.startswith('un')) and 'ret' not in a + b:
            return False
        if 'vector_ret' in (a, b) and 'unserialisable_ret' in (a, b):
            return False
    if f1['kind'].startswith('extractor') and f2['kind'].startswith('extractor'):
        return False
    return True


def model_effects(prog):
    """What the harness expects from the description alone (sequential programs):
    executed steps until termination, whether a capture failed, whether a discard happened, how the op ends."""
    capture_failed = False
    discarded = False
    forced_at = []
    executed = []
    ending = prog.get('ending', 'return')
    terminated = None
    for s in prog['steps']:
        t = s['t']
        executed.append(s)
        if t == 'discard':
            discarded = True
        elif t == 'force':
            forced_at.append(s['sid'])
        elif t == 'raise_now':
            terminated = 'raise'
            break
        elif t == 'interrupt_now':
            terminated = 'interrupt'
            break
        elif t in ('in', 'out'):
            if t == 'in' and s['a'] == UNENC:
                d = prog['ins'][s['i']]
                if d['kind'] != 'property' and d.get('capture', 'all') in ('all', 'pos1', 'pos1_name_b'):
                    capture_failed = True
            if t == 'in' and s.get('resolver_fault') and prog['ins'][s['i']].get('resolver'):
                capture_failed = True
            if s.get('hfail') and (t == 'out' or s['beh'] in ('ret', 'nested', 'force', 'discard_then_op')):
                # an input handler only runs when the wrapped body returned; an output handler runs before the body
                capture_failed = True
            if s['beh'] in ('discard', 'discard_raise', 'discard_then_op'):
                discarded = True
            if s['beh'] == 'force':
                forced_at.append(s['sid'])
            if s['beh'] == 'interrupt' and not s.get('swallow_interrupt'):
                terminated = 'interrupt'
                break
    if terminated is None:
        terminated = ending
    return {'capture_failed': capture_failed, 'discarded': discarded, 'forced': forced_at, 'executed': executed,
            'terminated': terminated}


def warm_up(rec, prog, actions, classes=None):
    """History on the same recorder before the measured run: a small operation using the measured program's output
    aliases is recorded ('record') and, for 'play', replayed. Returns nothing; must leave nothing behind."""
    if not actions:
        return
    outs = [dict(d) for d in prog.get('outs', [])] or [{'alias': 'out', 'kind': 'instance', 'handler': 'none'}]
    for d in outs:
        d['handler'] = 'none'
    warm = PS.assign_sids({'klass': 'instance', 'ins': [], 'outs': outs,
                           'steps': [{'t': 'out', 'i': i % len(outs), 'a': 'warm-up', 'kw': [], 'beh': 'ret',
                                      'ret': None} for i in range(len(outs) + 1)],
                           'ending': 'return', 'result': 'warm', 'extractor': 'none'})
    Ww = PS.World('LIVE')
    cls = PS.build_class(warm, rec, Ww)
    if classes is not None:
        classes.append(cls)
    was_enabled = rec.recording_enabled
    rec.enable_recording()
    try:
        out = PS.execute(cls, warm)
        if out[0] != 'ret' or not Ww.recording_ids:
            raise RuntimeError('warm-up operation failed: %r' % (out,))
        if 'play' in actions:
            Ww.world, Ww.journal, Ww.sites = 'REPLAY', [], {}
            rec.play(Ww.recording_ids[-1], lambda recording: PS.execute(cls, warm))
    finally:
        if not was_enabled:
            rec.disable_recording()
    if classes is None:
        PS.forget_class(cls)


class FaultRun(object):
    """One observed run: twin first, then the decorated program against a spy cassette."""

    def __init__(self, prog, flags=None, enabled=True, cassette='memory', seed=None):
        from playback.tape_recorder import TapeRecorder
        self.prog = prog
        flags = flags or {}
        # twin
        self.Wt = PS.World('LIVE')
        twin_cls = PS.build_class(prog, None, self.Wt, decorated=False)
        self.twin_outcome = PS.execute(twin_cls, prog)
        PS.forget_class(twin_cls)
        # decorated
        self.async_cas = None
        self.zoo = zoo.Zoo(kinds=('memory' if cassette == 'async' else cassette,), spy=True).__enter__()
        self.cas = self.zoo.cassettes[0]
        self.cas.fail_save = bool(flags.get('save_fails'))
        self.cas.slow_save_ms = flags.get('slow_save_ms', 0)
        rec_cas = self.cas
        if cassette == 'async':
            # the service records through the asynchronous wrapper (the spy is the wrapped storage)
            from playback.tape_cassettes.asynchronous.async_record_only_tape_cassette import AsyncRecordOnlyTapeCassette
            self.async_cas = rec_cas = AsyncRecordOnlyTapeCassette(self.cas, flush_interval=0.005)
            rec_cas.start()
        self.rec = TapeRecorder(rec_cas, random_seed=seed)
        if enabled:
            self.rec.enable_recording()
        self.W = PS.World('LIVE')
        self.cls = PS.build_class(prog, self.rec, self.W)
        if flags.get('prior'):
            # the recorder has a history: an earlier operation was recorded (and replayed) on it
            fail_save, self.cas.fail_save = self.cas.fail_save, False
            warm_up(self.rec, prog, flags['prior'])
            self.cas.fail_save = fail_save
            del self.cas.spy_log[:]
            del self.cas.spy_save_times[:]
        self.prior_same = None
        if flags.get('prior_same_class') and enabled and self.async_cas is None:
            self._run_earlier_on_same_class(prog)
        self.before = self.zoo.snapshot(self.cas)
        import time
        import datetime
        self.t_before, self.utc_before = time.time(), datetime.datetime.utcnow()
        handler = flags.get('within_handler')
        if handler == 'exception':
            # the service calls the operation from an except block (fallback / retry / cleanup code)
            try:
                raise RuntimeError('caller is handling this')
            except RuntimeError:
                self.outcome = PS.execute(self.cls, prog)
        elif handler == 'interrupt':
            try:
                raise V.Interrupt('caller is handling this')
            except V.Interrupt:
                self.outcome = PS.execute(self.cls, prog)
        else:
            self.outcome = PS.execute(self.cls, prog)
        self.t_after, self.utc_after = time.time(), datetime.datetime.utcnow()
        if self.async_cas is not None:
            self.async_cas.close()      # everything requested so far reaches the wrapped storage
        self.after = self.zoo.snapshot(self.cas)
        self.spy_log = list(self.cas.spy_log)

    def _run_earlier_on_same_class(self, prog):
        """History on the same recorder AND the same operation class: an earlier, fault-free run of this very class that
        ends the other way (it raises an ordinary exception) and whose extractor, if any, gives other user metadata.
        Keeps (id, metadata) of its recording in self.prior_same; leaves the world journals empty."""
        saved = dict((k, prog.get(k)) for k in ('steps', 'ending', 'ending_exc', 'extractor', 'extractor_meta',
                                                'params_fault', 'extractor_sleep_ms'))
        clean = [copy.deepcopy(s) for s in prog['steps'] if s['t'] in ('in', 'out', 'sleep')]
        for s in clean:
            for k in ('hfail', 'resolver_fault', 'swallow_interrupt'):
                s.pop(k, None)
            if s['t'] != 'sleep':
                if s.get('a') in (UNENC, VECTOR):
                    s['a'] = 0
                if s.get('ret') in (UNENC, VECTOR) or s['beh'] != 'ret':
                    s['ret'] = 'earlier'
                s['beh'] = 'ret'
        fail_save, self.cas.fail_save = self.cas.fail_save, False
        try:
            prog.update(steps=clean, ending='raise', ending_exc='Err', extractor_sleep_ms=0)
            prog.pop('params_fault', None)
            if saved.get('extractor', 'none') not in (None, 'none'):
                prog['extractor'] = 'ok'
                prog['extractor_meta'] = [['user_key', 'EARLIER RUN'], ['n', 99], ['earlier_only', 'x']]
            PS.assign_sids(prog)
            n0 = len(self.cas.spy_log)
            PS.execute(self.cls, prog)
            saves = [e for e in self.cas.spy_log[n0:] if e[0] == 'save']
            if len(saves) == 1:
                rid = saves[0][1]
                self.prior_same = (rid, copy.deepcopy(dict(
                    (k, v) for k, v in self.cas.get_recording_metadata(rid).items() if not isinstance(v, type))))
        finally:
            for k, v in saved.items():
                if v is None:
                    prog.pop(k, None)
                else:
                    prog[k] = v
            PS.assign_sids(prog)
            self.cas.fail_save = fail_save
        W = self.W
        del W.journal[:], W.outcalls[:], W.call_copies[:], W.recording_ids[:], W.stale_exceptions[:]
        W.sites.clear()
        W.body_out.clear()
        W.shared.clear()
        del self.cas.spy_log[:]
        del self.cas.spy_save_times[:]

    def close(self):
        PS.forget_class(self.cls)
        self.zoo.__exit__(None, None, None)


def placements(ctx, prog, pair_seed, npairs_quick=25, npairs_thorough=120, kinds=None, extra=()):
    """[] + every single fault + a seeded sample of compatible pairs (all pairs for programs <= 3 steps, thorough)."""
    import random
    faults = applicable_faults(prog, kinds, extra)
    out = [[]] + [[f] for f in faults]
    rnd = random.Random(pair_seed)
    pairs = [[a, b] for i, a in enumerate(faults) for b in faults[i + 1:] if compatible(a, b)]
    npairs = ctx.pick(npairs_quick, npairs_thorough)
    if not (not ctx.quick and len(prog['steps']) <= 3) and len(pairs) > npairs:
        pairs = rnd.sample(pairs, npairs)
    return out + pairs


def with_nested_operation(progs):
    """Programs that (one time in three) call another decorated operation of the same recorder somewhere."""
    from hypothesis import strategies as st

    @st.composite
    def wrapped(draw):
        p = draw(progs)
        if draw(st.sampled_from([False, False, True])):
            p['steps'].insert(draw(st.integers(0, len(p['steps']))),
                              {'t': 'nested_op', 'inner': draw(st.sampled_from(['ret', 'ret', 'raise']))})
            PS.assign_sids(p)
        return p
    return wrapped()


def base_programs(max_steps=5):
    from hypothesis import strategies as st
    progs = PS.programs(values=V.small_values, max_steps=max_steps, threads=False,
                        in_behs=('ret', 'ret', 'ret', 'raise', 'nested'), out_behs=('ret', 'ret', 'raise'),
                        in_extra={'handler': st.sampled_from(['none', 'wrap'])},
                        out_extra={'handler': st.sampled_from(['none', 'wrap'])}, ending_excs=V.ENDING_EXCS)
    return progs.filter(lambda p: len(p['steps']) <= max_steps + 1)
