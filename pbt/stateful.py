"""Base class for history-driven state machines: rules produce JSON-able operation dicts, each is appended to the
history and applied to an interpreter whose apply(op) raises Violation. A stored history is replayed by feeding
the same ops to a fresh interpreter, without Hypothesis."""
from hypothesis.stateful import RuleBasedStateMachine


class HistoryMachine(RuleBasedStateMachine):
    _holder = {}

    def make_interp(self):
        raise NotImplementedError

    def __init__(self):
        RuleBasedStateMachine.__init__(self)
        self.history = []
        self._holder['history'] = self.history
        self.interp = self.make_interp()

    def step(self, op):
        self.history.append(op)
        self._holder['history'] = self.history
        try:
            return self.interp.apply(op)
        except AssertionError as v:
            if hasattr(v, 'clause'):
                # remember the first observed oracle failure: reported if Hypothesis later finds the run not
                # reproducible (code under test behaving non-deterministically)
                self._holder.setdefault('violation', (list(self.history), str(v), v.clause))
            raise

    def teardown(self):
        self.interp.close()


def replay_history(interp, history):
    try:
        for op in history:
            interp.apply(op)
    finally:
        interp.close()
