"""Process-fault harness for the Equalizer (DESIGN.md 2.7): runs the REAL Equalizer with real forked workers; a fault
script assigns each recording id a behaviour executed by the user callbacks (player / extractor / comparator).
Nothing in the repository is patched; the only harness-side interposition is a wrapper around os.kill in the harness
process that makes the "parent is slow between giving up and killing" schedule deterministic for ids scripted 'late'.
"""
import multiprocessing as mp
import os
import signal
import time

BEHAVIOURS = ['equal', 'different', 'player_raises', 'extractor_raises', 'comparator_raises', 'bare_status',
              'exit', 'hang', 'late', 'hang_sigterm_ignored', 'dies_after_giveup', 'bad_answer', 'killed_in_poll']
# killed_in_poll: the worker is killed at the instant it is inside the poll of the shared terminate event (its loop
#             polls it between tasks); the harness emulates that instant by taking the event's internal lock in the
#             worker and then hanging - a SIGKILLed process never releases it
# bad_answer: the worker answers, but the answer cannot be unpickled by the parent (dedicated mode only): a framework
#             failure for that id while the worker stays alive and keeps serving
# hang_sigterm_ignored: the replayed code has installed a SIGTERM handler (as services do) and then hangs
# dies_after_giveup:    the worker hangs past the timeout and dies by itself right after the parent decided "timed out"
#                       (window held open by a harness logging handler on the Equalizer's own warning)
PROCESS_FAULTS = ('exit', 'hang', 'late', 'hang_sigterm_ignored', 'dies_after_giveup', 'killed_in_poll')


class _Flag(object):
    """Cross-process flag in shared memory, polled; no locks, so killed waiters cannot block anybody."""

    def __init__(self):
        self._v = mp.RawValue('b', 0)

    def set(self):
        self._v.value = 1

    def clear(self):
        self._v.value = 0

    def is_set(self):
        return bool(self._v.value)

    def wait(self, timeout):
        deadline = time.time() + timeout
        while not self._v.value and time.time() < deadline:
            time.sleep(0.005)
        return bool(self._v.value)


class ScenarioTimeout(BaseException):
    pass


class FakeRecording(object):
    def __init__(self, rid):
        self.id = rid

    def get_metadata(self):
        return {}


def _unpickle_poison(parent_pid):
    if os.getpid() == parent_pid:
        raise TypeError('this answer cannot be rebuilt in the parent process')
    return None


class Poison(object):
    """Pickles fine in the worker, fails to unpickle in the parent."""

    def __init__(self, parent_pid):
        self.parent_pid = parent_pid

    def __reduce__(self):
        return (_unpickle_poison, (self.parent_pid,))


class FakePlayback(object):
    """Small picklable stand-in for playback.tape_recorder.Playback."""

    def __init__(self, rid):
        self.original_recording = FakeRecording(rid)
        self.recorded_outputs = [('recorded', rid)]
        self.playback_outputs = [('played', rid)]
        self.playback_duration = 0.0
        self.recorded_duration = 0.0


def children_of(pid):
    """Non-zombie child processes of pid: list of (pid, state)."""
    out = []
    for d in os.listdir('/proc'):
        if not d.isdigit():
            continue
        try:
            with open('/proc/%s/stat' % d) as f:
                stat = f.read()
        except (IOError, OSError):
            continue
        rest = stat[stat.rindex(')') + 2:].split()
        state, ppid = rest[0], int(rest[1])
        if ppid == pid and state != 'Z':
            out.append((int(d), state))
    return out


def expected_status(behaviour, dedicated=True):
    from playback.studio.equalizer import EqualityStatus
    if behaviour in ('equal', 'bare_status'):
        return EqualityStatus.Equal
    if behaviour == 'bad_answer':
        return EqualityStatus.EqualizerFailure if dedicated else EqualityStatus.Equal
    if behaviour == 'different':
        return EqualityStatus.Different
    return EqualityStatus.EqualizerFailure


def run_scenario(scenario):
    """scenario = {ids: [...], script: {id: behaviour}, dedicated: bool, recycle: int, timeout: float,
                   keep: bool, consume: 'full' | ['close', k] | ['raise', k] | 'never'}
    Returns a plain dict of observations (JSON-able)."""
    from playback.studio.equalizer import Equalizer, CompareExecutionConfig, ComparatorResult, EqualityStatus
    ids = list(scenario['ids'])
    script = dict(scenario['script'])
    rd, wr = os.pipe()
    os.set_inheritable(wr, True)
    # lock-free shared flags (an mp.Event deadlocks its setter when a waiter was killed while waiting)
    gave_up, answered = _Flag(), _Flag()
    cur = {'id': None, 'yielded': 0}
    holder = {}
    me = os.getpid()
    before_children = set(p for p, _ in children_of(me))

    def id_iter():
        for i in ids:
            cur['id'] = i
            cur['yielded'] += 1
            yield i

    class Ids(object):
        """Re-iterable: every run of the equalizer walks the ids from the start."""

        def __iter__(self):
            return id_iter()

    def player(rid):
        b = script[rid]
        try:
            os.write(wr, ('%d %s\n' % (os.getpid(), rid)).encode())
        except OSError:
            pass
        if b == 'late':
            if os.getpid() != me:
                gave_up.wait(30)
        elif b == 'hang':
            if os.getpid() != me:
                time.sleep(1000)
        elif b == 'hang_sigterm_ignored':
            if os.getpid() != me:
                signal.signal(signal.SIGTERM, signal.SIG_IGN)
                time.sleep(1000)
        elif b == 'killed_in_poll':
            if os.getpid() != me:
                ev = getattr(holder.get('eq'), '_terminate_process', None)
                cond = getattr(ev, '_cond', None)
                if cond is not None:
                    cond.acquire()
                time.sleep(1000)
        elif b == 'dies_after_giveup':
            if os.getpid() != me:
                gave_up.wait(30)
                os._exit(4)
        elif b == 'exit':
            if os.getpid() != me:
                os._exit(3)
        elif b == 'player_raises':
            raise RuntimeError('player fails for %s' % rid)
        pb = FakePlayback(rid)
        if b == 'bad_answer' and os.getpid() != me:
            pb.poison = Poison(me)
        return pb

    def extractor(outputs):
        rid = outputs[0][1]
        if script[rid] == 'extractor_raises':
            raise RuntimeError('extractor fails for %s' % rid)
        return (outputs[0][0], rid)

    def comparator(recorded, played):
        rid = recorded[1]
        b = script[rid]
        if b == 'late':
            answered.set()
        if b == 'comparator_raises':
            raise RuntimeError('comparator fails for %s' % rid)
        if b == 'bare_status':
            return EqualityStatus.Equal
        if b == 'different':
            return ComparatorResult(EqualityStatus.Different, 'verdict of %s' % rid)
        return ComparatorResult(EqualityStatus.Equal, 'verdict of %s' % rid)

    real_kill = os.kill

    def slow_kill(pid, sig):
        # the parent is descheduled between deciding "timed out" and delivering the kill: the worker answers meanwhile
        if script.get(cur['id']) == 'late' and sig == signal.SIGKILL:
            gave_up.set()
            answered.wait(10)
            time.sleep(0.25)
        try:
            return real_kill(pid, sig)
        finally:
            gave_up.clear()
            answered.clear()

    import logging

    class GiveUpWindow(logging.Handler):
        """Holds the parent inside its timeout handling (it logs a warning first) until the scripted worker died."""

        def emit(self, record):
            try:
                msg = record.getMessage()
            except Exception:  # pylint: disable=broad-except
                return
            if 'timed out' in msg and script.get(cur['id']) == 'dies_after_giveup' and os.getpid() == me:
                gave_up.set()
                deadline = time.time() + 5
                while time.time() < deadline and [p for p, _ in children_of(me) if p not in before_children]:
                    time.sleep(0.02)
                gave_up.clear()

    eq_logger = logging.getLogger('playback.studio.equalizer')
    window = GiveUpWindow()
    window.setLevel(logging.WARNING)
    eq_logger.addHandler(window)
    old_disable = logging.root.manager.disable
    logging.disable(logging.INFO)      # warnings reach the handler, everything below stays off
    cfg = CompareExecutionConfig(keep_results_in_comparison=scenario.get('keep', False),
                                 compare_in_dedicated_process=scenario['dedicated'],
                                 compare_process_recycle_rate=scenario.get('recycle', 3),
                                 compare_process_timeout=scenario.get('timeout', 0.3))
    out = {'comparisons': [], 'times': [], 'error': None}
    os.kill = slow_kill
    t0 = time.time()
    cap = int(scenario.get('hard_cap_s', 60))

    def on_alarm(signum, frame):
        import traceback
        if 'hang_stack' not in out:
            out['hang_stack'] = ''.join(traceback.format_stack(frame)[-8:])
        # armed again: the clean-up that runs while this exception propagates (the finally block of the run) may
        # block as well; the harness clears the alarm when it has left the guarded region
        signal.alarm(3)
        raise ScenarioTimeout()

    old_alarm = signal.signal(signal.SIGALRM, on_alarm)
    signal.alarm(cap)
    try:
        eq = Equalizer(Ids(), player, extractor, comparator, compare_execution_config=cfg)
        holder['eq'] = eq
        consume = scenario.get('consume', 'full')
        gen = None
        if isinstance(consume, list) and consume[0] == 'overlap':
            # a preview run is started and left open after k comparisons, a second run of the same equalizer is
            # consumed completely, then the preview is abandoned
            def note(c):
                out['comparisons'].append({'recording_id': c.recording_id,
                                           'status': c.comparator_status.equality_status.name,
                                           'message': c.comparator_status.message, 'playback_id': None,
                                           'expected': None, 'actual': None})
            preview = eq.run_comparison()
            for _, c in zip(range(consume[1]), preview):
                note(c)
            out['preview'] = len(out['comparisons'])
            for c in eq.run_comparison():
                note(c)
            preview.close()
            del preview
        elif consume != 'never':
            gen = eq.run_comparison()
            last = time.time()
            n = 0
            try:
                for c in gen:
                    now = time.time()
                    out['times'].append(round(now - last, 3))
                    out['comparisons'].append({
                        'recording_id': c.recording_id,
                        'status': c.comparator_status.equality_status.name,
                        'message': c.comparator_status.message,
                        'playback_id': c.playback.original_recording.id if c.playback is not None else None,
                        'expected': list(c.expected) if c.expected is not None else None,
                        'actual': list(c.actual) if c.actual is not None else None,
                    })
                    n += 1
                    if isinstance(consume, list) and n >= consume[1]:
                        if consume[0] == 'close':
                            gen.close()
                            break
                        raise KeyboardInterrupt('consumer aborts')
                    last = time.time()
            except KeyboardInterrupt:
                gen.close()
        else:
            gen = eq.run_comparison()    # created, never started
            del gen
        del eq
    except ScenarioTimeout:
        signal.alarm(0)
        out['error'] = 'HARD-CAP: the run did not finish within %d s; parent was at:\n%s' % (
            cap, out.get('hang_stack', '?'))
    except Exception as e:  # pylint: disable=broad-except
        out['error'] = '%s: %s' % (type(e).__name__, e)
    finally:
        signal.alarm(0)
        signal.signal(signal.SIGALRM, old_alarm)
        os.kill = real_kill
        eq_logger.removeHandler(window)
        logging.disable(old_disable)
    out['wall'] = round(time.time() - t0, 3)
    out['ids_pulled'] = cur['yielded']
    # children left behind?
    deadline = time.time() + 2.0
    left = []
    while True:
        left = [(p, s) for p, s in children_of(me) if p not in before_children]
        if not left or time.time() > deadline:
            break
        time.sleep(0.05)
    out['children_left'] = left
    for p, _ in left:
        try:
            real_kill(p, signal.SIGKILL)
        except OSError:
            pass
    # reap
    try:
        while True:
            pid, _ = os.waitpid(-1, os.WNOHANG)
            if pid == 0:
                break
    except ChildProcessError:
        pass
    os.close(wr)
    os.set_blocking(rd, False)
    data = b''
    while True:
        try:
            chunk = os.read(rd, 65536)
        except BlockingIOError:
            break
        if not chunk:
            break
        data += chunk
    os.close(rd)
    tasks = [line.split(' ', 1) for line in data.decode().splitlines() if line]
    out['tasks'] = [(int(p), r) for p, r in tasks]
    out['harness_pid'] = me
    return out
