"""In-memory fake of the boto3 surface used by playback's S3BasicFacade, plus a controlled clock.

The real S3BasicFacade and S3TapeCassette run unmodified on top: the name `boto3` inside
playback.tape_cassettes.s3.s3_basic_facade and the name `datetime` inside
playback.tape_cassettes.s3.s3_tape_cassette are rebound (harness-side, the repo files are not edited).
"""
import datetime as _dt

import pytz


class NoSuchKey(Exception):
    """Mimics botocore's generated NoSuchKey error class (matched by name in the cassette)."""


class BucketCrash(BaseException):
    """Raised by the fake bucket after the k-th mutation to model a process crash."""


class Rejected(Exception):
    """The bucket refused the write (throttling / 5xx): nothing was applied."""


class LostResponse(Exception):
    """The write was applied by the bucket but the client sees an error (timeout / connection reset)."""


class Clock(object):
    now = None


CLOCK = Clock()
_RealDT = _dt.datetime


class FakeDT(_RealDT):
    @classmethod
    def utcnow(cls):
        return CLOCK.now if CLOCK.now is not None else _RealDT.utcnow()

    @classmethod
    def today(cls):
        return CLOCK.now if CLOCK.now is not None else _RealDT.today()

    @classmethod
    def now(cls, tz=None):
        return CLOCK.now if CLOCK.now is not None else _RealDT.now(tz)


class _DatetimeModuleProxy(object):
    """Stands for the datetime module inside the cassette module: datetime.datetime is the controlled clock."""
    datetime = FakeDT

    def __getattr__(self, item):
        return getattr(_dt, item)


class FakeS3(object):
    def __init__(self):
        self.buckets = {}
        self.log = []          # (op, bucket, key, actor)
        self.crash_after = None  # int: raise BucketCrash right after that many further mutations
        self.crash_kind = 'crash'  # 'crash' -> BucketCrash (BaseException); 'lost' -> LostResponse (Exception)
        self.reject_puts = 0     # int: that many further puts in a row are refused (Rejected) and NOT applied
        self.actor = None      # harness label for who is calling (set by the harness around calls)
        self.reads = 0

    def bucket(self, name):
        return self.buckets.setdefault(name, {})

    def _mutated(self, op, bucket, key):
        self.log.append((op, bucket, key, self.actor))
        if self.crash_after is not None:
            self.crash_after -= 1
            if self.crash_after <= 0:
                self.crash_after = None
                if self.crash_kind == 'lost':
                    raise LostResponse('%s %s' % (op, key))
                raise BucketCrash('%s %s' % (op, key))

    def contents(self, bucket):
        return dict((k, v[0]) for k, v in self.bucket(bucket).items())

    def now(self):
        return pytz.utc.localize(FakeDT.utcnow().replace(tzinfo=None))


CURRENT = FakeS3()


class _Body(object):
    def __init__(self, b):
        self._b = b

    def read(self):
        return self._b


class _Client(object):
    def put_object(self, Bucket, Key, Body, **kw):  # noqa: N803
        if CURRENT.reject_puts:
            CURRENT.reject_puts -= 1
            raise Rejected('put %s' % Key)
        if isinstance(Body, str):
            Body = Body.encode('utf-8')
        CURRENT.bucket(Bucket)[Key] = (bytes(Body), CURRENT.now(), dict(kw))
        CURRENT._mutated('put', Bucket, Key)
        return {}

    def get_object(self, Bucket, Key):  # noqa: N803
        CURRENT.reads += 1
        try:
            b = CURRENT.bucket(Bucket)[Key]
        except KeyError:
            raise NoSuchKey(Key)
        return {'Body': _Body(b[0])}


class _Summary(object):
    def __init__(self, bucket, key):
        self.bucket_name = bucket
        self.key = key

    @property
    def last_modified(self):
        return CURRENT.bucket(self.bucket_name)[self.key][1]

    def get(self):
        CURRENT.reads += 1
        return {'Body': _Body(CURRENT.bucket(self.bucket_name)[self.key][0])}


class _Collection(object):
    def __init__(self, bucket, prefix):
        self.b = bucket
        self.p = prefix or ''

    def __iter__(self):
        for k in sorted(k for k in CURRENT.bucket(self.b) if k.startswith(self.p)):
            yield _Summary(self.b, k)

    def delete(self):
        for s in list(self):
            del CURRENT.bucket(self.b)[s.key]
            CURRENT._mutated('delete', self.b, s.key)
        return []


class _Objects(object):
    def __init__(self, b):
        self.b = b

    def filter(self, Prefix=None, **kw):  # noqa: N803
        return _Collection(self.b, Prefix)

    def all(self):
        return _Collection(self.b, '')


class _Bucket(object):
    def __init__(self, name):
        self.name = name
        self.objects = _Objects(name)


class _Resource(object):
    def Bucket(self, name):  # noqa: N802
        return _Bucket(name)


class _Boto3(object):
    @staticmethod
    def resource(*a, **k):
        return _Resource()

    @staticmethod
    def client(*a, **k):
        return _Client()


def install(fake=None):
    """Install the fake (a fresh one unless given) and take control of the cassette's clock."""
    global CURRENT
    CURRENT = fake or FakeS3()
    import playback.tape_cassettes.s3.s3_basic_facade as facade
    import playback.tape_cassettes.s3.s3_tape_cassette as cassette
    if not hasattr(facade, 'boto3'):
        raise RuntimeError('cannot take control of boto3 in s3_basic_facade')
    facade.boto3 = _Boto3
    current = getattr(cassette, 'datetime', None)
    if current is None:
        raise RuntimeError('cannot take control of the clock in s3_tape_cassette')
    if current is _dt or isinstance(current, _DatetimeModuleProxy):
        cassette.datetime = _DatetimeModuleProxy()      # the module does `import datetime`
    else:
        cassette.datetime = FakeDT                      # the module does `from datetime import datetime`
    CLOCK.now = None
    return CURRENT
