"""Cassette zoo: the real cassette classes over scratch storage, spy wrappers and store snapshots."""
import os
import shutil
import tempfile

from pbt import fakes3

BUCKET = 'verif-bucket'


def _spy(base):
    class Spy(base):
        """Thin subclass logging create/save/abort with the recording's id; delegates."""
        def __init__(self, *a, **k):
            self.spy_log = []
            self.spy_save_times = []
            self.slow_save_ms = 0
            self.fail_save = False
            base.__init__(self, *a, **k)

        def create_new_recording(self, category):
            r = base.create_new_recording(self, category)
            self.spy_log.append(('create', r.id))
            return r

        def save_recording(self, recording):
            import time
            self.spy_log.append(('save', recording.id))
            self.spy_save_times.append(time.time())
            if self.slow_save_ms:
                time.sleep(self.slow_save_ms / 1000.0)
            if self.fail_save:
                raise IOError('injected storage failure on save')
            return base.save_recording(self, recording)

        def abort_recording(self, recording=None):
            self.spy_log.append(('abort', recording.id))
            return base.abort_recording(self, recording)

    Spy.__name__ = 'Spy' + base.__name__
    return Spy


class Zoo(object):
    """with Zoo(kinds=('memory','file','s3'), s3_prefixes=('',)) as z: z.cassettes"""

    def __init__(self, kinds=('memory', 'file', 's3'), s3_prefixes=('',), spy=False, s3_kwargs=None):
        self.kinds = kinds
        self.s3_prefixes = s3_prefixes
        self.spy = spy
        self.s3_kwargs = s3_kwargs or {}
        self.cassettes = []
        self._names = {}
        self._dirs = {}
        self._ctor = {}
        self._tmp = None
        self.fake = None

    def __enter__(self):
        from playback.tape_cassettes.in_memory.in_memory_tape_cassette import InMemoryTapeCassette
        from playback.tape_cassettes.file_based.file_based_tape_cassette import FileBasedTapeCassette
        wrap = _spy if self.spy else (lambda c: c)
        for kind in self.kinds:
            if kind == 'memory':
                self._add(wrap(InMemoryTapeCassette)(), 'memory')
            elif kind == 'file':
                if self._tmp is None:
                    self._tmp = tempfile.mkdtemp(prefix='verif-zoo-')
                d = os.path.join(self._tmp, 'cassette%d' % len(self.cassettes))
                self._add(wrap(FileBasedTapeCassette)(d), 'file')
                self._dirs[id(self.cassettes[-1])] = d
                self._ctor[id(self.cassettes[-1])] = lambda d=d: FileBasedTapeCassette(d)
            elif kind == 's3':
                from playback.tape_cassettes.s3.s3_tape_cassette import S3TapeCassette
                if self.fake is None:
                    self.fake = fakes3.install()
                for p in self.s3_prefixes:
                    kw = dict(read_only=False)
                    kw.update(self.s3_kwargs)
                    if isinstance(p, (tuple, list)):      # (prefix, extra constructor arguments)
                        p, extra = p
                        kw.update(extra)
                    self._add(wrap(S3TapeCassette)(BUCKET, key_prefix=p, **kw), 's3[%r]' % p)
                    self._ctor[id(self.cassettes[-1])] = lambda p=p, kw=dict(kw): S3TapeCassette(BUCKET, key_prefix=p, **kw)
            else:
                raise ValueError(kind)
        return self

    def _add(self, cas, name):
        self.cassettes.append(cas)
        self._names[id(cas)] = name

    def name(self, cas):
        return self._names[id(cas)]

    def kind(self, cas):
        return self._names[id(cas)].split('[')[0]

    def second_instance(self, cas):
        """Another cassette object over the same storage (a recording service and a playback tool sharing a directory
        or a bucket prefix); the in-memory cassette has no shared storage and is returned itself."""
        make = self._ctor.get(id(cas))
        return make() if make else cas

    def snapshot(self, cas):
        """Serialised store content, comparable before/after."""
        k = self.kind(cas)
        if k == 'memory':
            # through the public interface only (the private store may be renamed / restructured by a refactoring):
            # id -> serialised (data, metadata) of what a fetch returns
            from jsonpickle import encode
            out = {}
            for rid in cas.get_all_recording_ids():
                r = cas.get_recording(rid)
                try:
                    out[rid] = encode([sorted((key, encode(r.get_data(key))) for key in r.get_all_keys()),
                                       r.get_metadata()])
                except Exception as e:  # pylint: disable=broad-except
                    out[rid] = 'unencodable: %s' % type(e).__name__
            return out
        if k == 'file':
            out = {}
            d = self._dirs[id(cas)]     # the scratch directory this zoo handed to the cassette
            for fn in sorted(os.listdir(d)):
                with open(os.path.join(d, fn), 'rb') as f:
                    out[fn] = f.read()
            return out
        return self.fake.contents(BUCKET)

    def __exit__(self, *a):
        if self._tmp is not None:
            shutil.rmtree(self._tmp, ignore_errors=True)
        fakes3.CLOCK.now = None
        return False
