"""Runner for the property checks: seed/tier handling, sharding, evidence, VIOLATION / KNOWN-FINDING lines.

Contract (see DESIGN.md 2.1):
  exit 0  property held on everything explored (KNOWN-FINDING lines allowed)
  exit 1  violation; prints  VIOLATION property=<id> replay=<path>
  exit 2  harness error (never reported as a violation)
"""
from __future__ import print_function

import argparse
import collections
import glob
import hashlib
import importlib
import json
import os
import subprocess
import sys
import time
import traceback

VERIF = os.path.dirname(os.path.dirname(os.path.abspath(__file__)))
SRC = os.path.abspath(os.environ.get('PLAYBACK_SRC', '/repo'))
GUARD = 'PLAYBACK_VERIF'


class Violation(AssertionError):
    """Raised by an oracle when the property does not hold for a case."""

    def __init__(self, message, clause=None, case=None):
        AssertionError.__init__(self, message)
        self.clause = clause or 'oracle'
        self.case = case    # optional: the concrete (smaller) failing sub-case to store in the replay file


class HarnessError(Exception):
    pass


def canon(desc):
    return json.dumps(desc, sort_keys=True, default=repr, ensure_ascii=True)


def _from_src(tb):
    """True when the traceback has a frame inside the code under test."""
    root = os.path.join(SRC, 'playback') + os.sep
    while tb is not None:
        if os.path.abspath(tb.tb_frame.f_code.co_filename).startswith(root):
            return True
        tb = tb.tb_next
    return False


def innermost_src_frame(tb):
    root = os.path.join(SRC, 'playback') + os.sep
    last = None
    while tb is not None:
        fn = os.path.abspath(tb.tb_frame.f_code.co_filename)
        if fn.startswith(root):
            last = '%s:%s' % (fn[len(root):], tb.tb_frame.f_code.co_name)
        tb = tb.tb_next
    return last


class Ctx(object):
    def __init__(self, pid, tier, seed, shard=0, nshards=1):
        self.property_id = pid
        self.tier = tier
        self.seed = seed
        self.shard = shard
        self.nshards = nshards
        self.evaluations = 0
        self.nontrivial = set()
        self.samples = []
        self.counters = collections.Counter()
        self.excluded = collections.Counter()
        self.violations = []
        self.known_lines = []
        self.extra = {}
        self.exhaustive = None
        self.notes = []
        self._next_sample_at = 1

    # ---- parameters
    @property
    def quick(self):
        return self.tier == 'quick'

    def pick(self, quick, thorough):
        return quick if self.tier == 'quick' else thorough

    def rng_seed(self, label=''):
        h = hashlib.sha256(('%s|%s|%s|%s' % (self.property_id, self.seed, self.shard, label)).encode()).hexdigest()
        return int(h[:12], 16)

    # ---- accounting
    def case(self, desc, nontrivial, classes=()):
        self.evaluations += 1
        for c in classes:
            self.counters[c] += 1
        if nontrivial:
            h = hashlib.md5(canon(desc).encode()).hexdigest()[:16]
            if h not in self.nontrivial:
                self.nontrivial.add(h)
                n = len(self.nontrivial)
                if n >= self._next_sample_at and len(self.samples) < 6:
                    self.samples.append(json.loads(canon(desc)))
                    self._next_sample_at = max(n + 1, n * 7)

    def count(self, name, n=1):
        self.counters[name] += n

    def exclude(self, name, n=1):
        self.excluded[name] += n

    def note(self, text):
        self.notes.append(text)

    # ---- results
    def violation(self, case, message, clause='oracle', replay_path=None):
        if replay_path is None:
            d = os.path.join(VERIF, 'replays')
            os.makedirs(d, exist_ok=True)
            replay_path = os.path.join(d, '%s-seed%s-s%d-%d.json' % (
                self.property_id, self.seed, self.shard, len(self.violations)))
            with open(replay_path, 'w') as f:
                json.dump({'property': self.property_id, 'clause': clause, 'message': message[:4000],
                           'seed': self.seed, 'tier': self.tier, 'case': json.loads(canon(case))}, f, indent=1)
        self.violations.append({'replay': replay_path, 'clause': clause, 'message': message[:2000]})

    def known(self, text):
        self.known_lines.append(text)

    def partial(self):
        return {'evaluations': self.evaluations, 'nontrivial': sorted(self.nontrivial), 'samples': self.samples,
                'counters': dict(self.counters), 'excluded': dict(self.excluded), 'violations': self.violations,
                'known_lines': self.known_lines, 'extra': self.extra, 'exhaustive': self.exhaustive,
                'notes': self.notes}

    def merge(self, p):
        self.evaluations += p['evaluations']
        self.nontrivial.update(p['nontrivial'])
        for s in p['samples']:
            if len(self.samples) < 8:
                self.samples.append(s)
        self.counters.update(p['counters'])
        self.excluded.update(p['excluded'])
        self.violations.extend(p['violations'])
        for k in p['known_lines']:
            if k not in self.known_lines:
                self.known_lines.append(k)
        for k, v in p['extra'].items():
            if isinstance(v, (int, float)) and isinstance(self.extra.get(k), (int, float)):
                self.extra[k] += v
            else:
                self.extra.setdefault(k, v)
        if p['exhaustive'] is not None:
            self.exhaustive = p['exhaustive'] if self.exhaustive is None else (self.exhaustive and p['exhaustive'])
        for n in p['notes']:
            if n not in self.notes:
                self.notes.append(n)


# ---------------------------------------------------------------------------------------------
# Hypothesis helpers


def hyp_settings(max_examples, shrink=True, steps=None):
    from hypothesis import settings, HealthCheck, Phase
    kw = dict(max_examples=max_examples, database=None, deadline=None, derandomize=False,
              report_multiple_bugs=False,
              suppress_health_check=[HealthCheck.too_slow, HealthCheck.data_too_large,
                                     HealthCheck.large_base_example],
              phases=[Phase.generate, Phase.shrink] if shrink else [Phase.generate])
    if steps is not None:
        kw['stateful_step_count'] = steps
    return settings(**kw)


def _escaping():
    """Exception classes that may escape from a check body through the code under test: ordinary exceptions and the
    interrupt-style exception that simulated service code raises (a BaseException). When one of them passed through
    frames of the code under test and the check did not expect it, the behaviour differs from what the oracle
    allows: a violation, not a harness error."""
    from pbt.values import Interrupt
    return (Exception, Interrupt)


def hyp_search(ctx, strategy, body, max_examples, label='', shrink=True):
    """Run body(case) over cases drawn from strategy. body raises Violation when the oracle fails.
    The shrunk failing case (Hypothesis replays the minimal one last) is reported through ctx.violation.
    Cases are JSON-serialisable descriptions."""
    from hypothesis import given, seed
    holder = {}

    @seed(ctx.rng_seed(label))
    @hyp_settings(max_examples, shrink=shrink)
    @given(strategy)
    def test(case):
        try:
            body(case)
        except Violation as v:
            holder['case'], holder['msg'], holder['clause'] = (v.case if v.case is not None else case), str(v), v.clause
            raise
        except _escaping() as e:  # pylint: disable=broad-except
            tb = sys.exc_info()[2]
            if _from_src(tb):
                holder['case'] = case
                holder['clause'] = 'unexpected-exception %s @%s' % (type(e).__name__, innermost_src_frame(tb))
                holder['msg'] = 'unexpected %s from the code under test: %s\n%s' % (
                    type(e).__name__, e, ''.join(traceback.format_tb(tb)[-6:]))
                raise Violation(holder['msg'], holder['clause'])
            raise

    from hypothesis.errors import Flaky
    try:
        test()
    except Violation:
        ctx.violation(holder['case'], holder['msg'], holder['clause'])
        return False
    except Flaky:
        # the oracle failed for a generated case but not on every re-execution while shrinking (time-dependent
        # clause): the failure that was observed is reported with the case that produced it
        if 'case' not in holder:
            raise
        ctx.violation(holder['case'], holder['msg'] + '\n(not reproduced on every re-execution while shrinking)',
                      holder['clause'])
        return False
    return True


def run_machine(ctx, machine_cls, max_examples, steps, label='', shrink=True):
    """Run a RuleBasedStateMachine. The machine must keep a JSON-able history in self.history and raise
    Violation from rules/invariants. Unexpected exceptions from the code under test are violations too."""
    from hypothesis import seed
    from hypothesis.stateful import run_state_machine_as_test
    holder = {}
    machine_cls._holder = holder
    try:
        run_state_machine_as_test(seed(ctx.rng_seed(label))(machine_cls),
                                  settings=hyp_settings(max_examples, shrink=shrink, steps=steps))
    except Violation as v:
        ctx.violation(holder.get('history', []), str(v), v.clause)
        return False
    except _escaping() as e:  # pylint: disable=broad-except
        from hypothesis.errors import Flaky
        if isinstance(e, Flaky) and 'violation' in holder:
            hist, msg, clause = holder['violation']
            ctx.violation(hist, msg + '\n(not reproduced on every re-execution: the code under test behaved '
                          'non-deterministically for this history)', clause)
            return False
        tb = sys.exc_info()[2]
        if _from_src(tb) and 'history' in holder:
            ctx.violation(holder['history'], 'unexpected %s from the code under test: %s\n%s' % (
                type(e).__name__, e, ''.join(traceback.format_tb(tb)[-6:])),
                          'unexpected-exception %s @%s' % (type(e).__name__, innermost_src_frame(tb)))
            return False
        raise
    return True


def guarded(ctx, case, body):
    """Run body(case) outside Hypothesis (enumerations, replays): Violation and exceptions from the code under
    test are recorded as violations; returns True when the case passed."""
    try:
        body(case)
        return True
    except Violation as v:
        ctx.violation(case, str(v), v.clause)
    except _escaping() as e:  # pylint: disable=broad-except
        tb = sys.exc_info()[2]
        if not _from_src(tb):
            raise
        ctx.violation(case, 'unexpected %s from the code under test: %s\n%s' % (
            type(e).__name__, e, ''.join(traceback.format_tb(tb)[-6:])),
                      'unexpected-exception %s @%s' % (type(e).__name__, innermost_src_frame(tb)))
    return False


# ---------------------------------------------------------------------------------------------


def load_known(pid):
    path = os.path.join(VERIF, 'known_findings.json')
    if not os.path.exists(path):
        return []
    with open(path) as f:
        data = json.load(f)
    return [k for k in data.get('findings', []) if k.get('property') == pid]


def prepare_imports():
    os.environ.setdefault(GUARD, '1')
    sys.path.insert(0, SRC)
    if VERIF not in sys.path:
        sys.path.insert(1, VERIF)
    import logging
    import warnings
    logging.disable(logging.CRITICAL)
    warnings.filterwarnings('ignore')
    import playback
    where = os.path.abspath(playback.__file__)
    if not where.startswith(SRC + os.sep):
        raise HarnessError('playback imported from %s, expected under %s' % (where, SRC))


def run_shard(pid, tier, seed, shard, nshards):
    prepare_imports()
    mod = importlib.import_module('props.' + pid)
    ctx = Ctx(pid, tier, seed, shard, nshards)
    ctx.known_findings = load_known(pid)
    if shard == 0:
        # regression tier first: committed minimal reproductions
        for path in sorted(glob.glob(os.path.join(VERIF, 'regress', pid, '*.json'))):
            with open(path) as f:
                rec = json.load(f)
            ctx.count('regress_replayed')
            try:
                mod.replay(ctx, rec['case'])
            except Violation as v:
                ctx.violation(rec['case'], str(v), v.clause, replay_path=path)
            except Exception as e:  # pylint: disable=broad-except
                tb = sys.exc_info()[2]
                if not _from_src(tb):
                    raise
                ctx.violation(rec['case'], 'unexpected %s: %s' % (type(e).__name__, e), 'unexpected-exception',
                              replay_path=path)
    mod.run(ctx)
    return ctx


def main(argv=None):
    ap = argparse.ArgumentParser()
    ap.add_argument('property')
    ap.add_argument('--tier', default=os.environ.get('VERIF_TIER') or 'quick', choices=['quick', 'thorough'])
    ap.add_argument('--replay')
    ap.add_argument('--shard', type=int, default=None)
    ap.add_argument('--nshards', type=int, default=1)
    ap.add_argument('--partial')
    ap.add_argument('--no-evidence', action='store_true')
    args = ap.parse_args(argv)
    pid = args.property
    try:
        seed = int(os.environ.get('VERIF_SEED') or 1)
    except ValueError:
        seed = 1
    t0 = time.time()

    try:
        if args.replay:
            prepare_imports()
            mod = importlib.import_module('props.' + pid)
            with open(args.replay) as f:
                rec = json.load(f)
            ctx = Ctx(pid, args.tier, seed)
            ctx.known_findings = load_known(pid)
            ok = guarded(ctx, rec['case'], lambda c: mod.replay(ctx, c))
            if ok:
                print('replay: case passes (no violation)')
                return 0
            print(ctx.violations[0]['message'])
            print('VIOLATION property=%s replay=%s' % (pid, os.path.abspath(args.replay)))
            return 1

        if args.shard is not None:
            ctx = run_shard(pid, args.tier, seed, args.shard, args.nshards)
            with open(args.partial, 'w') as f:
                json.dump(ctx.partial(), f)
            return 0

        prepare_imports()
        mod = importlib.import_module('props.' + pid)
        nshards = getattr(mod, 'SHARDS', {}).get(args.tier, 1)
        if nshards <= 1:
            ctx = run_shard(pid, args.tier, seed, 0, 1)
        else:
            work = os.path.join(VERIF, '.work', '%s-%d' % (pid, os.getpid()))
            os.makedirs(work, exist_ok=True)
            procs = []
            for i in range(nshards):
                part = os.path.join(work, 'part%d.json' % i)
                procs.append((i, part, subprocess.Popen(
                    [sys.executable, '-m', 'pbt.cli', pid, '--tier', args.tier, '--shard', str(i),
                     '--nshards', str(nshards), '--partial', part], cwd=VERIF, start_new_session=True)))
            ctx = Ctx(pid, args.tier, seed, 0, nshards)
            failed = []
            # watchdog: a shard that does not come back is killed with everything it started and reported as a harness
            # error (inconclusive), never left hanging
            limit = getattr(mod, 'SHARD_TIMEOUT', {}).get(args.tier, 1200 if args.tier == 'quick' else 7200)
            deadline = t0 + limit
            for i, part, p in procs:
                try:
                    rc = p.wait(timeout=max(1.0, deadline - time.time()))
                except subprocess.TimeoutExpired:
                    import signal as _signal
                    try:
                        os.killpg(p.pid, _signal.SIGKILL)
                    except OSError:
                        pass
                    p.wait()
                    rc = 'no result within %d s (killed)' % limit
                if rc != 0 or not os.path.exists(part):
                    failed.append((i, rc))
                    continue
                with open(part) as f:
                    ctx.merge(json.load(f))
            import shutil
            shutil.rmtree(work, ignore_errors=True)
            if failed:
                raise HarnessError('shards failed: %r' % failed)
    except HarnessError as e:
        print('HARNESS-ERROR property=%s %s' % (pid, e))
        return 2
    except Exception as e:  # pylint: disable=broad-except
        if type(e).__name__ == 'LostControl':
            print('HARNESS-ERROR property=%s %s' % (pid, e))
            return 2
        traceback.print_exc()
        print('HARNESS-ERROR property=%s unexpected exception in the harness' % pid)
        return 2

    wall = time.time() - t0
    coverage = {
        'evaluations': ctx.evaluations,
        'distinct_nontrivial': len(ctx.nontrivial),
        'rule': getattr(mod, 'RULE', ''),
        'samples': ctx.samples,
        'classes': dict(sorted(ctx.counters.items())),
        'excluded_by_construction': dict(sorted(ctx.excluded.items())),
        'shards': nshards,
    }
    if ctx.exhaustive is not None:
        coverage['exhaustive'] = bool(ctx.exhaustive)
    if ctx.notes:
        coverage['notes'] = ctx.notes
    coverage.update(ctx.extra)
    evidence = {
        'property_id': pid, 'tier': args.tier, 'seed': seed, 'level': mod.LEVEL, 'coverage': coverage,
        'assumptions': list(getattr(mod, 'ASSUMPTIONS', [])), 'wall_s': round(wall, 2),
        'violations': len(ctx.violations),
    }
    if ctx.known_lines:
        evidence['known_findings'] = ctx.known_lines
    if not args.no_evidence:
        os.makedirs(os.path.join(VERIF, 'evidence'), exist_ok=True)
        with open(os.path.join(VERIF, 'evidence', pid + '.json'), 'w') as f:
            json.dump(evidence, f, indent=1, sort_keys=True)

    for line in ctx.known_lines:
        print('KNOWN-FINDING: property=%s %s' % (pid, line))
    print('%s tier=%s seed=%d evaluations=%d distinct_nontrivial=%d wall=%.1fs violations=%d' % (
        pid, args.tier, seed, ctx.evaluations, len(ctx.nontrivial), wall, len(ctx.violations)))
    if ctx.violations:
        seen = set()
        for v in ctx.violations:
            if v['replay'] in seen:
                continue
            seen.add(v['replay'])
            print('  clause: %s' % v['clause'])
            print('  ' + v['message'].replace('\n', '\n  ')[:1500])
            print('VIOLATION property=%s replay=%s' % (pid, v['replay']))
        return 1
    if ctx.evaluations == 0 or len(ctx.nontrivial) < 2:
        print('HARNESS-ERROR property=%s vacuous run (evaluations=%d, nontrivial=%d)' % (
            pid, ctx.evaluations, len(ctx.nontrivial)))
        return 2
    return 0


if __name__ == '__main__':
    sys.exit(main())

