"""Reference model of metadata filter matching, written from the property statement (C14), not from the code.

  plain value      -> equality
  string           -> shell-style pattern, against string values only
  list             -> any alternative matches
  operator object  -> Python comparison recorded <op> value; an undefined comparison is "no match"
  missing / None   -> matches only a None alternative

UNSPECIFIED is returned where the statement is silent (unknown operator; '=' with value None against a
missing value): there only totality and determinism are required.
"""
from fnmatch import fnmatchcase

UNSPECIFIED = 'unspecified'
ABSENT = ('<absent>',)
OPS = ('=', '<', '<=', '>', '>=')


def is_operator_object(f):
    return isinstance(f, dict) and 'operator' in f and 'value' in f


def match_value(f, recorded):
    """recorded is the recorded value or ABSENT. Returns True / False / UNSPECIFIED."""
    missing = recorded is ABSENT or recorded is None
    if isinstance(f, list):
        results = [match_value(alt, recorded) for alt in f]
        if any(r is True for r in results):
            return True
        if any(r is UNSPECIFIED for r in results):
            return UNSPECIFIED
        return False
    if is_operator_object(f):
        op, value = f['operator'], f['value']
        if not isinstance(op, str) or op not in OPS:
            return UNSPECIFIED
        if missing:
            if op == '=' and value is None:
                return UNSPECIFIED
            if op in ('<=', '>=') and value is None:
                return UNSPECIFIED
            return False
        try:
            if op == '=':
                return bool(recorded == value)
            if op == '<':
                return bool(recorded < value)
            if op == '<=':
                return bool(recorded <= value)
            if op == '>':
                return bool(recorded > value)
            return bool(recorded >= value)
        except TypeError:
            return False
    if f is None:
        return missing
    if missing:
        return False
    if isinstance(f, str):
        return isinstance(recorded, str) and fnmatchcase(recorded, f)
    return bool(recorded == f)


def match(filter_by, metadata):
    """Conjunction over the filter's keys."""
    out = True
    for k, f in filter_by.items():
        r = match_value(f, metadata[k] if k in metadata else ABSENT)
        if r is False:
            return False
        if r is UNSPECIFIED:
            out = UNSPECIFIED
    return out
