"""Regenerates MANIFEST.json from the table below (developer helper; MANIFEST.json is the committed interface)."""
import json

CHECKS = {
    'C14': dict(
        engine='refmatch', category='exploration', design='DESIGN.md 3 C14',
        text='Exhaustive enumeration of a small universe of filters x metadata values plus Hypothesis-generated '
             'filters/metadata and listings through the in-memory and S3 cassettes, all compared with a reference '
             'model written from the statement; totality, bool result and determinism checked on every pair.',
        note='Trusts the reference model pbt/refmatch.py as the reading of the statement; where the statement is '
             'silent (unknown operator, "=" None against a missing value) only totality/determinism are required. '
             'Metadata restricted to JSON-shaped values.',
        technique='exhaustive enumeration + Hypothesis property-based testing against a reference model'),
}

CHECKS['C07'] = dict(
    engine='zoo+fakes3', category='exploration', design='DESIGN.md 3 C07',
    text='Hypothesis rule-based state machine over every real cassette type (in-memory, file-based, S3 over a fake '
         'bucket with four key prefixes incl. the empty default): save/fetch/fetch-metadata/fetch-unknown histories '
         'with hostile key texts and faithful-domain values incl. shared sub-objects, compared with a dict model '
         'built independently from the case description.',
    note='S3 is exercised through the real S3TapeCassette/S3BasicFacade over pbt/fakes3.py (boto3 surface only). '
         'Value domain bounded to what jsonpickle 0.9.3 round-trips on this interpreter. Known finding: S3 data key '
         '"_metadata" (excluded by construction, witnessed on every run).',
    technique='Hypothesis stateful (model-based) testing against a dict model')

CHECKS['C10'] = dict(
    engine='zoo+fakes3', category='exploration', design='DESIGN.md 3 C10',
    text='Hypothesis rule-based state machine: the same logical recordings saved to every real cassette type '
         '(categories in prefix/underscore relation, JSON metadata with absent keys, incomplete flag), lookups through '
         'iter_recording_ids / iter_recordings_metadata / find_matching_recording_ids (skip-incomplete on and off, '
         'limits, ordered and random) compared with the reference filter model and across cassettes.',
    note='Reference = pbt/refmatch.py over the harness model of what was saved; filters whose meaning the C14 '
         'statement leaves open for some stored recording are checked for totality only. S3 through the real '
         'cassette/facade over the fake bucket, incl. the default empty prefix. No date windows here (C16).',
    technique='Hypothesis stateful testing against a reference model + cross-cassette differential')

CHECKS['C16'] = dict(
    engine='zoo+fakes3', category='exploration', design='DESIGN.md 3 C16',
    text='Exhaustive sweep of every (start, end) and (start, now) pair on an hour grid (thorough: 20-minute grid) over '
         'four days of recordings saved through the real S3 cassette over the fake bucket with a controlled clock, '
         'plus Hypothesis-generated minute-level instants mixed with filters, limits, categories and prefixes; '
         'oracle = set comprehension over the harness list of save instants.',
    note='Clock control by rebinding the name datetime in s3_tape_cassette (harness-side); fake bucket stamps '
         'last_modified from the same clock without rounding. UTC process clock assumed, as the property states.',
    technique='exhaustive enumeration over a time grid + Hypothesis property-based testing against a set model')

CHECKS['C15'] = dict(
    engine='zoo+fakes3', category='fault_enumeration', design='DESIGN.md 3 C15',
    text='Hypothesis rule-based state machine over 2-4 real S3 cassettes (read_only x transient x prefixes that are '
         'string prefixes of one another) sharing one fake bucket with foreign objects, with a crash injected after '
         'each individual bucket mutation of a save or re-save - as a BaseException (process dies) or as an ordinary '
         'exception after the write was applied (lost response) - plus a deterministic sweep of every configuration x '
         'crash index x flavour; '
         'oracle over the bucket mutation log and before/after contents, and discoverable => fetchable after every step.',
    note='Bucket = pbt/fakes3.py behind the real facade; a crash is a BaseException raised right after a mutation is '
         'applied. Completeness of discoverable recordings is claimed for saves only, as the property states.',
    technique='Hypothesis stateful testing with injected crash points; invariant over a mutation log')

CHECKS['C01'] = dict(
    engine='progsim', category='exploration', design='DESIGN.md 3 C01',
    text='Hypothesis-generated operation programs are built into real classes with the real decorators, recorded, '
         'stored and fetched through every cassette type (in-memory, file, S3 with and without prefix, async wrapper) '
         'and replayed (programs include fallback aliases naming live aliases of other inputs and intercepted calls cut '
         'short by an interrupt-style exception that the operation swallows); round-trip oracle on every call site, the operation result, Playback outputs and a body '
         'journal (no wrapped body may run in replay).',
    note='Expected side is what the live run actually did (harness journal), not a re-implementation. Generator '
         'preconditions: inputs normalised to be a function of (alias, captured args); faithful value domain of the '
         'pinned serializer; thread-private output aliases; worker overlap forced by a rendezvous inside bodies.',
    technique='Hypothesis property-based testing of generated programs (record/replay round trip)')

CHECKS['C03'] = dict(
    engine='progsim', category='exploration', design='DESIGN.md 3 C03',
    text='Hypothesis-generated pairs (recorded program, edited replayed program): recorded_outputs and '
         'playback_outputs must each equal the image of the harness call-site journal of the run that produced them '
         '(one entry per output call keyed by alias and per-alias ordinal, args without the instance, kwargs, operation '
         'entry), and the keys at which they differ must be exactly the keys at which the journals differ.',
    note='Expected side is computed from a journal written at the call sites by the harness, independent of the '
         'recorder. The persisted key text is pinned on purpose. Nested interceptions excluded (not captured by design).',
    technique='Hypothesis property-based testing with edit scripts (metamorphic) against a call-site journal')

CHECKS['C02'] = dict(
    engine='progsim', category='exploration', design='DESIGN.md 3 C02',
    text='Hypothesis-generated pairs (recorded program, replayed program with renamed aliases, changed/dropped/added '
         'calls) crossed with the full product of missing-key options (fallback lists/functions, run-original, '
         'substitutes incl. falsy and callable, fail-on-missing-result, defaults), recording enabled/disabled, 1-3 '
         'replays, on in-memory/file/S3 spy cassettes; every call site is compared with a reference model of the '
         'documented policy order, the body journal with the run-original cases, the spy log and store snapshot with '
         '"untouched".',
    note='Reference model in props/C02.py (predict) written from the statement/README; the recording content it '
         'consults comes from the harness journal of the live run, not from recorder internals.',
    technique='Hypothesis property-based testing against a reference model of the missing-key policy')

CHECKS['C04'] = dict(
    engine='progsim', category='fault_enumeration', design='DESIGN.md 3 C04',
    text='Hypothesis generates programs; the harness enumerates every single placement of every tolerated fault kind at '
         'every step (plus sampled pairs, disabled/skipped variants) and compares the decorated run with the undecorated '
         'twin built from the same description: operation outcome, per-call-site object identity with what the wrapped '
         'body produced, body journal, cassette untouched when disabled. Threaded parts provoke a discard / forced sampling '
         'while other workers are inside intercepted bodies: with OS threads around a rendezvous, and under the '
         'deterministic scheduler at line granularity of tape_recorder.py (PCT and seeded random schedules).',
    note='Twin and decorated class are built from one description with identity vs real decorators. Scheduled part: '
         'sampled schedules (no exhaustive enumeration for the recorder); the recorder lock is made cooperative '
         'harness-side.',
    technique='Hypothesis-generated programs x exhaustive single-fault placement; differential against an undecorated twin')
CHECKS['C05'] = dict(
    engine='progsim', category='fault_enumeration', design='DESIGN.md 3 C05',
    text='Same fault enumeration as C04 (capture faults, discards, forced sampling, ordinary exceptions and '
         'BaseException terminations at every step incl. inside intercepted bodies - also swallowed by the operation -, '
         'calls of another decorated operation of the same recorder, failing save/extractor, sampling '
         'rates) observed at a spy cassette: exactly one finalisation per created recording, abort and unchanged store '
         'whenever a capture failed or a discard happened, every stored non-incomplete recording replays without a '
         'missing-key error and without executing a wrapped body, and a fault-free follow-up operation on the same '
         'recorder is saved and replays; a second part runs threaded operations (workers discarding / forcing / '
         'intercepting concurrently) under the deterministic scheduler and requires exactly one finalisation there too.',
    note='Model of "capture failed / discarded" computed from the program description (pbt/faultrun.model_effects). '
         'Spy = thin subclass of the real in-memory / file / S3 cassette.',
    technique='Hypothesis-generated programs x exhaustive fault/crash-point placement; invariant over a spy-cassette log')

CHECKS['C18'] = dict(
    engine='progsim', category='fault_enumeration', design='DESIGN.md 3 C18',
    text='Hypothesis-generated programs x every termination mode (return / ordinary exception / BaseException) at every '
         'step incl. inside intercepted bodies x extractors that succeed, raise or return junk x instance/class-level, '
         'on in-memory/file/S3 cassettes; the saved metadata read back through the cassette is compared with a model '
         'computed from the harness journal (class, duration bounds, timestamp window, incomplete and exception flags, '
         'user keys, default skip-incomplete lookup).',
    note='Duration/timestamp clauses use the same clocks as the recorder with a 2 ms tolerance and bracket them between '
         'harness-measured instants (time inside the operation body <= duration <= time until save is invoked).',
    technique='Hypothesis-generated programs x exhaustive termination-point placement against a journal model')
CHECKS['C17'] = dict(
    engine='spy cassettes', category='exploration', design='DESIGN.md 3 C17',
    text='Exhaustive decision table (1080 rows: skipped x rate x forcing origin x ignore-forcing x discard origin x '
         'outcome x operation kind) observed at a spy cassette; long seeded histories at fractional rates (same seed '
         'twice, paired histories differing only in content/outcome, 5-sigma kept-fraction bound); Hypothesis-generated '
         'mixed-class histories (forcing must not leak); S3 size-based calculator observed as bucket writes.',
    note='The oracle states the policy (and seed reproducibility / content independence) without mirroring the '
         'generator draw by draw. Fixed seeds make the statistical bound deterministic on an unchanged tree.',
    technique='exhaustive decision-table enumeration + seeded history metamorphic tests + Hypothesis generated histories')

CHECKS['C09'] = dict(
    engine='progsim', category='exploration', design='DESIGN.md 3 C09',
    text='Hypothesis rule-based state machine over ONE recorder and two long-lived worker threads: generated programs '
         'ending in every way (return, exception, interrupt incl. on a pool thread, discard, sampled out, forced, '
         'capture/save/extractor failures), replays that succeed or fail (missing id, missing key, failing or '
         'interrupted playback function), enable/disable; idle flags after every rule and a PROBE program whose '
         'recording and Playback on the used recorder must equal those on a fresh recorder; a second part uses as history '
         'a threaded operation run under the deterministic scheduler (sampled schedules and a bounded-preemption DFS over '
         'tiny two-worker operations), followed by the same idle check and probe.',
    note='Probe comparison excludes ids, duration, timestamp and the class object; the enable switch is modelled '
         '(only explicit API calls may change it).',
    technique='Hypothesis stateful testing; differential of a probe run against a fresh recorder')

CHECKS['C11'] = dict(
    engine='progsim', category='exploration', design='DESIGN.md 3 C11',
    text='Hypothesis-generated recordings with mutable values on every cassette type and generated scripts of reads '
         '(get_data, [], get_data_direct, get_metadata, the objects handed to set_data) each followed by an in-place '
         'mutation and re-reads/re-fetches; programs replayed by code that mutates every injected value and everything '
         'inside Playback.recorded_outputs, then replayed again; recordings made with copy-on-interception while the '
         'operation mutates returned values. Oracle: pristine model rebuilt from the case description.',
    note='get_data_direct/get_metadata may expose the fetched graph (documented), so independence is required across '
         'fetches only; output arguments under copy-on-interception are out of scope.',
    technique='Hypothesis property-based testing with in-place mutation scripts against a pristine model')
CHECKS['C20'] = dict(
    engine='handwritten operation + cassette zoo', category='exploration', design='DESIGN.md 3 C20',
    text='Hypothesis-generated byte contents and limits (boundary sizes limit-1/limit/limit+1, empty, binary, '
         'placeholder text, env-variable limit 0 and 1 MB boundary) x positional/keyword path x instance/static x '
         'input/output file handlers x cassette type, through record -> cassette -> fetch -> replay; byte round trip, '
         'placeholder above the limit, restored path, stored form.',
    note='Files live in a scratch directory removed after each case; the env variable is restored after each case.',
    technique='Hypothesis property-based testing (byte round trip through recorder and cassette)')

CHECKS['C06'] = dict(
    engine='hashseed', category='exploration', design='DESIGN.md 3 C06',
    text='Hypothesis-generated batches of input calls are recorded by a child interpreter started with one '
         'PYTHONHASHSEED into a file cassette and replayed, as structurally equal reconstructions (reversed dict/set '
         'construction order, keyword order swapped, uncaptured arguments replaced), by a child started with another '
         'seed: metamorphic "equal => same token" and "distinct => own token", plus equality of the key strings listed '
         'in both processes, also when the second process makes the calls in reversed order (two fresh interpreters: no '
         'dependence on call history, incl. calls that are == but differently typed).',
    note='Children are persistent interpreters speaking pickled descriptions over pipes (pbt/hashseed.py). Known '
         'finding (sets with >= 2 members in captured arguments) excluded by construction and witnessed on every run. '
         'Pairs that are == but differently typed (1/1.0/True) are not constrained.',
    technique='Hypothesis metamorphic testing across processes with different hash seeds')

CHECKS['C12'] = dict(
    engine='detsched', category='exploration', design='DESIGN.md 3 C12',
    text='The real AsyncRecordOnlyTapeCassette runs under a harness-owned deterministic thread scheduler (cooperative '
         'Lock/Event/Thread, switch points at every line or bytecode of the cassette module and at every storage call): '
         'Hypothesis generates workloads (producers, writes, a failing wrapped operation, optionally split over two '
         'asynchronous cassettes used one after the other in the process) and schedules (PCT priority '
         'schedules, seeded random walks, timer firings); a stateless DFS enumerates all schedules within a preemption '
         'bound for the smallest workloads. Oracle: content at the moment close() returns == synchronous twin, '
         'per-recording operation order exactly once, failing op removes only itself, nothing after close, callers '
         'never wait on the lock while its holder is inside a storage call, no deadlock.',
    note='Schedules are data (the executed thread-choice sequence is the replay file). Limits: switch points only in '
         'Python code of the watched module; join-timeout expiry not explored; exhaustive part covers the tiny (quick) '
         'or tiny/small (thorough) workloads with a preemption bound, everything else is sampled.',
    technique='schedule-controlled property-based testing (PCT / random schedules via Hypothesis) + bounded-preemption exhaustive DFS')

CHECKS['C08'] = dict(
    engine='procfault', category='exploration', design='DESIGN.md 3 C08',
    text='Hypothesis-generated fault scripts (per-id behaviour: equal, different, player/extractor/comparator raises, '
         'bare status, answer the parent cannot unpickle, worker exits, hangs (also ignoring SIGTERM), answers just after the '
         'parent gave up, dies right after the parent gave up, is killed inside its poll of the terminate event) x '
         'in-process/dedicated '
         'x recycle rate x keep-results, run through the REAL Equalizer with real forked workers; one correctly '
         'attributed verdict per id in input order, replay and kept results belong to the labelled id, and in-process vs '
         'dedicated differential for scripts without process faults. Second part: a real TapeRecorder as the player '
         'over real recordings whose replay is unchanged / sends something else / fails inside the framework before or '
         'after an output call, in-process and dedicated with recycle rates 1-6.',
    note='Nothing in the repository is patched: behaviours are executed by the user callbacks; the late-answer schedule '
         'is made deterministic by wrapping os.kill in the harness process. Each process fault costs about 1 s (the '
         'Equalizer polls at 1 s), hence scenario counts in the hundreds.',
    technique='Hypothesis-generated fault scripts against real worker processes; attribution oracle + mode differential')
CHECKS['C13'] = dict(
    engine='procfault', category='exploration', design='DESIGN.md 3 C13',
    text='Hypothesis-generated scenarios with hangs and worker deaths at first/middle/last/consecutive/recycle-boundary '
         'positions x recycle rate x timeout x consumption mode (full, closed early, consumer exception, never started, two overlapping runs of '
         'one equalizer) '
         'against the REAL Equalizer: bounded response per faulty id and for the whole run, the run continues with a '
         'fresh worker, tasks per worker pid <= recycle rate (counted from a pipe written by the player), no non-zombie '
         'child left within 2 s of completion or abandonment.',
    note='Termination is observed as bounded response (timeout + 5 s per faulty id, 10x nominal for the run), not '
         'proved. Children are observed through /proc/<pid>/stat.',
    technique='Hypothesis-generated fault scripts against real worker processes; bounded-response and process-leak oracles')

CHECKS['C19'] = dict(
    engine='cassette zoo + handwritten operations', category='exploration', design='DESIGN.md 3 C19',
    text='Hypothesis-generated recording sets over categories that are prefixes of one another, on every cassette type; '
         'the REAL PlaybackStudio runs with explicit id lists (generated order, and a permutation of it) or '
         'lookup-driven selection, tuners failing for a generated subset of categories, result generators consumed in a '
         'generated interleaving, in-process and (rarely) in dedicated processes. Per-category playback function / '
         'extractor / comparator are tagged harness closures; oracle: exactly-once replay by the own category\'s '
         'functions, failing tuner isolated, lookup-driven routing, deterministic category order under permutation.',
    note='Journals give exactly-once in-process; verdict messages carry the tuning category so that attribution is also '
         'checked in the dedicated-process arm.',
    technique='Hypothesis property-based testing with tagged callbacks + permutation metamorphic relation')

# dimensions added after the ninth seeded round (appended to the level texts)
ROUND9 = {
    'C01': ' Replay-time policies for missing entries are also declared on the unchanged code; recorded calls raise '
           'KeyError / LookupError as well.',
    'C02': ' Output data handlers may fail during the replay only.',
    'C03': ' Edited programs may call discard_recording / force_sample_recording during the replay.',
    'C04': ' Fault kinds include an alias resolver that raises or lacks the placeholder.',
    'C05': ' Fault kinds include failing alias resolution; operations end with ordinary exceptions of several types.',
    'C06': ' Wrapped functions may mutate their arguments in place.',
    'C09': ' Histories include replays whose run-original fallback fails.',
    'C10': ' Saves and re-saves may go through a second cassette object over the same storage.',
    'C11': ' Input results include values that cannot be compared with == (array-like, identity equality); replays '
           'by code that renamed its inputs (old alias as fallback) and reads every input twice.',
    'C12': ' Recordings may end with abort_recording instead of a save.',
    'C14': ' Random filters include lists of up to 40 alternatives.',
    'C18': ' Fault kinds include failing alias resolution; operations end with ordinary exceptions of several types.',
    'C20': ' The same output path may be sent twice after a rewrite with the same size and modification time.',
}
ROUND10 = {
    'C04': ' Metadata extractors may discard the recording.',
    'C11': ' The operation class may extend a class configured earlier without copy-on-interception.',
    'C12': ' The same cassette object may be started again after close (refused loudly or stored).',
    'C15': ' Fault kinds include bursts of refused (not applied) writes.',
    'C18': ' Optionally an earlier run of the same operation class (other outcome, other user metadata) precedes the '
           'measured run; its recording must stay as saved.',
    'C19': ' The same studio object may be played twice with the tuner changing in between.',
    'C20': ' The same input may be fetched twice to different paths.',
}
for _pid, _t in ROUND10.items():
    ROUND9[_pid] = ROUND9.get(_pid, '') + _t
for _pid, _t in ROUND9.items():
    CHECKS[_pid]['text'] += _t

ENGINES = [
    ('procfault', 'pbt/procfault.py', 'Equalizer process-fault harness: fault scripts executed by user callbacks, '
                                      'slow-kill schedule control, task pipe, /proc child observation', ['C08', 'C13']),
    ('detsched', 'pbt/detsched.py', 'deterministic thread scheduler: cooperative primitives, settrace switch points, '
                                    'PCT/random/replay choosers', ['C12']),
    ('hashseed', 'pbt/hashseed.py', 'persistent child interpreters with fixed distinct PYTHONHASHSEED values', ['C06']),
    ('progsim', 'pbt/progsim.py', 'program simulator: JSON program descriptions -> real decorated classes, undecorated '
                                  'twin, journals, fault injection, program strategies', ['C01', 'C02', 'C03', 'C04',
                                                                                          'C05', 'C09', 'C11', 'C17',
                                                                                          'C18', 'C20']),
    ('runner', 'pbt/runner.py', 'seed/tier handling, Hypothesis drivers, sharding, evidence writer', None),
    ('refmatch', 'pbt/refmatch.py', 'reference model of metadata filter matching written from the statement',
     ['C14', 'C10']),
    ('zoo+fakes3', 'pbt/zoo.py', 'real cassette classes over scratch storage; in-memory fake bucket (pbt/fakes3.py) '
                                 'behind the real S3 facade; controlled clock', ['C07', 'C10', 'C14', 'C15', 'C16']),
]

PENDING_REASON = 'check not registered yet: machinery for this property is still under construction in /verif ' \
                 '(planned per DESIGN.md; nothing about the technique prevents it)'


def main():
    props = [json.loads(l)['id'] for l in open('properties.jsonl')]
    checks = []
    for pid in props:
        if pid not in CHECKS:
            continue
        c = CHECKS[pid]
        checks.append({
            'property_id': pid,
            'quick_cmd': './check %s --tier quick' % pid,
            'thorough_cmd': './check %s --tier thorough' % pid,
            'evidence_file': 'evidence/%s.json' % pid,
            'replay_cmd_template': './check %s --replay {path}' % pid,
            'engine': c['engine'],
            'level_claimed': {'category': c['category'], 'text': c['text'], 'design_ref': c['design']},
            'level_note': c['note'],
            'technique': c['technique'],
        })
    manifest = {
        'version': 1,
        'setup_cmd': '/venv/bin/pip install --no-index --find-links /opt/veriftools/wheels hypothesis',
        'hooks': {
            'guard': 'PLAYBACK_VERIF',
            'enable': 'no hooks in the repository: every observation point is reached through public API, user '
                      'callbacks, cassette subclasses and harness-side rebinding of module globals; ./check exports '
                      'PLAYBACK_VERIF=1 anyway',
            'baseline_off_cmd': 'cd /repo && env -u PLAYBACK_VERIF /venv/bin/python -m pytest -ra -q '
                                '-p no:cacheprovider --timeout=900 --continue-on-collection-errors',
            'source_commits': [],
            'add_only': True,
        },
        'engines': [{'name': n, 'path': p, 'kind_free_text': k,
                     'serves_properties': s if s is not None else sorted(CHECKS)} for n, p, k, s in ENGINES],
        'checks': checks,
        'not_applicable': [{'property_id': p, 'reason': PENDING_REASON} for p in props if p not in CHECKS],
        'notes': 'Property-based testing / fuzzing family only. Checks import playback from /repo\'s working tree '
                 '(PLAYBACK_SRC overrides it for sensitivity runs against scratch copies). Exit 2 = harness error.',
    }
    with open('MANIFEST.json', 'w') as f:
        json.dump(manifest, f, indent=1)
        f.write('\n')


if __name__ == '__main__':
    main()
