"""Validate MANIFEST.json and evidence files against the schemas (developer helper)."""
import glob, json, sys
import jsonschema
m = json.load(open('MANIFEST.json'))
jsonschema.validate(m, json.load(open('/root/.vp/MANIFEST.schema.json')))
es = json.load(open('/root/.vp/EVIDENCE.schema.json'))
props = [json.loads(l)['id'] for l in open('properties.jsonl')]
claimed = [c['property_id'] for c in m['checks']]
na = [c['property_id'] for c in m.get('not_applicable', [])]
for c in m['checks']:
    try:
        e = json.load(open(c['evidence_file']))
        jsonschema.validate(e, es)
        assert e['level'] == c['level_claimed']['category'], (c['property_id'], 'level mismatch')
    except Exception as ex:
        print('EVIDENCE PROBLEM', c['property_id'], str(ex)[:200])
print('claimed', len(claimed), 'not_applicable', len(na), 'unlisted', [p for p in props if p not in claimed and p not in na])
