#!/bin/bash
# Developer helper: verify (suite + demo with / without the change) and detect (own property's quick check) for every
# seeded change, in 4 lanes; results in seeded/detection_results.txt and seeded/verify_results.txt.
cd "$(dirname "$(readlink -f "$0")")"
names=$(ls -d seeded/*/ | xargs -n1 basename | sort)
out=$(mktemp -d)
lane=0
for n in $names; do echo $n >> $out/lane$((lane % ${LANES:-4})); lane=$((lane+1)); done
for l in $(seq 0 $((${LANES:-4}-1))); do
  ( for n in $(cat $out/lane$l); do
      p=${n%%-*}
      /venv/bin/python tools_seeded.py verify $n > $out/v_$n.txt 2>&1
      echo "$n $(grep -E 'demo_exit|does not apply' $out/v_$n.txt | tr -d ' \n')" >> $out/verify_$l.txt
      timeout 1500 /venv/bin/python tools_seeded.py detect $n $p 2>&1 | grep -E "caught|MISSED|HARNESS|does not apply" | head -1 >> $out/detect_$l.txt
    done ) &
done
wait
cat $out/detect_*.txt | sort > seeded/detection_results.txt
cat $out/verify_*.txt | sort > seeded/verify_results.txt
rm -rf $out
