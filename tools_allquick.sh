#!/bin/bash
# developer helper: run every quick check at the given seeds, print one line per run
cd "$(dirname "$0")"
for seed in "$@"; do
  for p in C01 C02 C03 C04 C05 C06 C07 C08 C09 C10 C11 C12 C13 C14 C15 C16 C17 C18 C19 C20; do
    out=$(VERIF_SEED=$seed ./check $p --tier quick --no-evidence 2>&1); rc=$?
    echo "seed=$seed $p rc=$rc $(echo "$out" | grep -E "tier=quick" | tail -1)"
    if [ $rc -ne 0 ]; then echo "$out" | tail -15; fi
  done
done
