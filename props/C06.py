"""C06 - input lookup keys identify calls by alias and captured argument values only."""
import copy
import os
import shutil
import tempfile

from hypothesis import strategies as st

from pbt import progsim as PS, values as V, hashseed as HS
from pbt.runner import Violation, hyp_search

LEVEL = 'exploration'
SHARDS = {'quick': 4, 'thorough': 16}
RULE = ('A Hypothesis example is a batch of input calls (alias or resolver-formatted alias, static / instance, every '
        'capture selection, positional / keyword arguments, argument trees up to depth 3 over numbers, strings, bytes, '
        'None, booleans, lists, tuples, sets, string-keyed dicts, plain objects; occasionally arguments whose serialised form '
        'has thousands of characters, with a sibling differing only at the end) made inside one operation, each '
        'returning its own token. The batch is recorded by a child interpreter started with one PYTHONHASHSEED into a '
        'file cassette and replayed by a child started with another (seeds 0, 1, 2, 12345, 4294967295; all ordered '
        'pairs over a run); independently each child has either imported only what recording into a file cassette needs '
        'or every module of the playback package (S3 / asynchronous cassettes, studio, file interception). Relations: (1) equal => same key: the replayed call is a structurally equal reconstruction '
        '(dict items and set members in reversed order, arguments excluded from capture replaced by other values) and '
        'must receive the token recorded for the original; the key strings listed by get_all_keys() in two processes '
        'must be equal sets, also when the second process makes the calls in reversed order (no dependence on call history; '
        'this includes calls that are == but differently typed, e.g. 1 / 1.0 / True); (2) distinct => distinct: calls of a batch that differ in alias or captured arguments have '
        'different tokens and each replayed call must receive its own (a collision would overwrite an entry). '
        'Non-trivial: the argument tree contains a dict with >= 2 keys, a nested container, an object or a capture '
        'subset, and recorder and replayer have different hash seeds. Distinct = distinct (batch, seed pair).')
ASSUMPTIONS = ['pairs of values that are == but of different type (1 / 1.0 / True) are not required to differ or collide',
               'KNOWN FINDING excluded by construction: captured arguments containing a set with >= 2 members (set '
               'iteration order is not canonical in the key)']

_children = {}


def child(seed, preimport=False):
    if (seed, preimport) not in _children:
        _children[(seed, preimport)] = HS.Child(seed, preimport)
    return _children[(seed, preimport)]


def close_children():
    for c in _children.values():
        c.close()
    _children.clear()


captured_view = PS.captured_view


def scrub_uncaptured(decl, s, other):
    """Replace arguments excluded from capture by arbitrary other values."""
    cap = decl.get('capture', 'all')
    kw = bool(s.get('usekw'))
    t = dict(s)
    if decl['kind'] == 'property':
        return t
    if cap in ('none', 'false'):
        t['a'], t['b'] = other, other
    elif cap == 'pos1':
        t['b'] = other
    elif cap == 'name_b':
        t['a'] = other
        if not kw:
            t['b'] = other
    if s.get('usekw') == 'both':
        t['kwrev'] = not s.get('kwrev')     # same keyword arguments, passed in the other order
    return t


def py_equal_keyparts(prog, s1, s2):
    """True when two calls are == as Python values in everything the key may depend on."""
    d1, d2 = prog['ins'][s1['i']], prog['ins'][s2['i']]
    a1 = d1['alias'] + ('.' + s1['name'] if d1.get('resolver') else '')
    a2 = d2['alias'] + ('.' + s2['name'] if d2.get('resolver') else '')
    if a1 != a2:
        return False
    tags = ('a-kw', 'a-pos', 'b-kw', 'b-pos')
    v1 = [V.build(x) if not (isinstance(x, str) and x in tags) else x for x in captured_view(d1, s1)]
    v2 = [V.build(x) if not (isinstance(x, str) and x in tags) else x for x in captured_view(d2, s2)]
    return v1 == v2


def nontrivial_tree(d, depth=0):
    if isinstance(d, list):
        return depth >= 1 or any(nontrivial_tree(x, depth + 1) for x in d)
    if isinstance(d, dict):
        t = d.get('t')
        if t == 'obj':
            return True
        if t == 'dict' and len(d['v']) >= 2:
            return True
        if t in ('tuple', 'set', 'dict'):
            return depth >= 1 or any(nontrivial_tree(x, depth + 1) for x in (d['v'] if t != 'dict' else
                                                                            [kv[1] for kv in d['v']]))
    return False


def check_batch(ctx, case):
    prog = copy.deepcopy(case['prog'])
    # known finding: exclude calls whose captured arguments hold a set with >= 2 members
    kept = []
    for s in prog['steps']:
        d = prog['ins'][s['i']]
        if HS.big_sets(captured_view(d, s)):
            ctx.exclude('captured argument contains a set with >= 2 members (known finding)')
            continue
        kept.append(s)
    # distinct tokens; drop calls that are == (but not identical in serialised form) to an earlier one
    steps = []
    typed_equal = []     # calls that are == an earlier call but differently typed: tokens are not constrained for them,
    for s in kept:       # but the key strings must not depend on the order in which the calls are made (below)
        clash = False
        for t in steps:
            if py_equal_keyparts(prog, s, t) and PS.model_key(prog, s) != PS.model_key(prog, t):
                clash = True
        if clash:
            ctx.exclude('token check skipped: call == an earlier call but of different type (1 / 1.0 / True)')
            typed_equal.append(s)
            continue
        steps.append(s)
    for n, s in enumerate(steps):
        s['ret'] = 1000 + n
        s['beh'] = 'ret'
    prog['steps'] = steps
    prog = PS.assign_sids(PS.normalise_inputs(prog))
    if not steps:
        return
    want = dict((s['sid'], s['ret']) for s in prog['steps'])
    replayed = copy.deepcopy(prog)
    for s in replayed['steps']:
        d = replayed['ins'][s['i']]
        t = scrub_uncaptured(d, s, case['other'])
        s['a'], s['b'] = HS.variant(t['a']), HS.variant(t['b'])
        if 'kwrev' in t:
            s['kwrev'] = t['kwrev']
        s['reraise_framework'] = False
    a, b = case['seeds']
    # process configuration besides the hash seed: has the process imported the rest of the playback package
    # (other cassettes, studio, file interception) or only what recording into a file cassette needs
    ia, ib = case.get('imports', (False, False))
    work = tempfile.mkdtemp(prefix='verif-c06-')
    try:
        r1 = child(a, ia).call({'cmd': 'record', 'dir': work, 'prog': prog})
        if r1['outcome'] != 'ret' or not r1['rid']:
            raise Violation('recording the batch failed in the process with hash seed %s: %r' % (a, r1), 'record')
        out = child(b, ib).call({'cmd': 'replay', 'dir': work, 'rid': r1['rid'], 'prog': replayed})
        if out['bodies']:
            raise Violation('wrapped bodies ran during replay in the other process', 'body-ran-in-replay')
        for s in prog['steps']:
            got = out['sites'].get(s['sid'])
            if got is None or got[0] != 'v' or got[1] != want[s['sid']] or type(got[1]) is not int:
                raise Violation('call %s (alias %r, capture %s, args a=%r b=%r %s) recorded with hash seed %s and token '
                                '%d; its structurally equal reconstruction replayed with hash seed %s got %r' % (
                                    s['sid'], prog['ins'][s['i']]['alias'], prog['ins'][s['i']].get('capture'),
                                    s['a'], s['b'], 'kw=%s' % s.get('usekw'), a, want[s['sid']], b, got),
                                'equal-same-key' if (got is None or got[0] == 'e') else 'distinct-keys')
        # key strings across processes AND across call orders: the batch (now including the typed-equal calls) is
        # recorded in the original order by one child and, as reconstructions in REVERSED order, by the other: the key
        # of a call may not depend on which calls were made before it
        work2 = tempfile.mkdtemp(prefix='verif-c06b-')
        work3 = tempfile.mkdtemp(prefix='verif-c06c-')
        try:
            fwd = copy.deepcopy(prog)
            for n, s in enumerate(typed_equal):
                t = copy.deepcopy(s)
                t['ret'], t['beh'] = 5000 + n, 'ret'
                fwd['steps'].append(t)
            fwd = PS.assign_sids(fwd)
            rev = copy.deepcopy(fwd)
            for s in rev['steps']:
                d = rev['ins'][s['i']]
                t = scrub_uncaptured(d, s, case['other'])
                s['a'], s['b'] = HS.variant(t['a']), HS.variant(t['b'])
                if 'kwrev' in t:
                    s['kwrev'] = t['kwrev']
            rev['steps'].reverse()
            rev = PS.assign_sids(rev)
            if typed_equal or case.get('dirty_first'):
                # history independence needs interpreters without history: two fresh children (optionally both with
                # the same short history: an earlier operation whose key could not be built)
                ca, cb = HS.Child(a, ia), HS.Child(b, ib)
                try:
                    rf = ca.call({'cmd': 'record', 'dir': work3, 'prog': fwd, 'dirty_first': case.get('dirty_first')})
                    r2 = cb.call({'cmd': 'record', 'dir': work2, 'prog': rev, 'dirty_first': case.get('dirty_first')})
                finally:
                    ca.close()
                    cb.close()
            else:
                rf = r1
                r2 = child(b, ib).call({'cmd': 'record', 'dir': work2, 'prog': rev})
        finally:
            shutil.rmtree(work2, ignore_errors=True)
            shutil.rmtree(work3, ignore_errors=True)
        kf = [k for k in rf['keys'] if k.startswith('input:')]
        kr = [k for k in r2['keys'] if k.startswith('input:')]
        if sorted(kf) != sorted(kr):
            raise Violation('key strings depend on process or call order (hash seeds %s / %s; second recording made the '
                            'same calls in reversed order): only in first %r, only in second %r' % (
                                a, b, sorted(set(kf) - set(kr))[:3], sorted(set(kr) - set(kf))[:3]), 'key-strings')
        k1 = [k for k in r1['keys'] if k.startswith('input:')]
        k2 = k1
        if sorted(k1) != sorted(k2):
            raise Violation('key strings differ between processes (hash seeds %s / %s): only in first %r, only in '
                            'second %r' % (a, b, sorted(set(k1) - set(k2))[:3], sorted(set(k2) - set(k1))[:3]),
                            'key-strings')
        distinct_keys = len(set(PS.model_key(prog, s) for s in prog['steps']))
        if len(k1) != distinct_keys:
            raise Violation('%d different (alias, captured arguments) calls were stored under %d keys: %r' % (
                distinct_keys, len(k1), k1[:4]), 'distinct-keys')
    finally:
        shutil.rmtree(work, ignore_errors=True)
    nt = a != b and any(nontrivial_tree(s['a']) or nontrivial_tree(s['b']) or
                        prog['ins'][s['i']].get('capture', 'all') not in ('all',) for s in prog['steps'])
    ctx.case(case, nt, classes=('seeds:%s' % ('same' if a == b else 'different'),
                                'shared-instance' if any(x.get('share') for x in prog['steps']) else 'no-shared-instance',
                                'history:key-failure-first' if case.get('dirty_first') else 'history:none',
                                'imports:%s' % ('same' if ia == ib else 'different'), 'typed-equal:%d' % min(len(typed_equal), 3), 'batch:%d' % min(len(steps), 10)) +
             (('big-argument',) if any(x.get('big') for x in prog['steps']) else ()) +
             (('body-mutates-arguments',) if any(x.get('mutate_args') is not None and (
                 V.is_mutable(V.build(x['a'])) or V.is_mutable(V.build(x['b']))) for x in prog['steps']) else ()) +
             tuple(set('capture:' + prog['ins'][s['i']].get('capture', 'all') for s in prog['steps'])) +
             tuple(set('kind:' + prog['ins'][s['i']]['kind'] for s in prog['steps'])))


@st.composite
def batches(draw):
    vals = V.values
    ins, _ = PS.fix_decls(draw(st.lists(PS.input_decls({'handler': st.just('none')}), min_size=1, max_size=3)), [])
    steps = [draw(PS.in_step(ins, vals, behs=('ret',))) for _ in range(draw(st.integers(1, 8)))]
    # large captured arguments (long id lists, big dicts, long strings): keys of several thousand characters
    for _ in range(draw(st.sampled_from([0, 0, 1]))):
        s = draw(PS.in_step(ins, vals, behs=('ret',)))
        if ins[s['i']]['kind'] != 'property':
            big = draw(st.sampled_from(['list', 'dict', 'str']))
            n = draw(st.integers(150, 400))
            if big == 'list':
                s['a'] = list(range(n))
            elif big == 'dict':
                s['a'] = {'t': 'dict', 'v': [['key%d' % i, i] for i in range(n)]}
            else:
                s['a'] = 'x' * (n * 10)
            s['big'] = True
            steps.append(s)
            # and a sibling that differs only at the very end
            t = copy.deepcopy(s)
            if big == 'list':
                t['a'] = list(range(n - 1)) + [-1]
            elif big == 'dict':
                t['a'] = {'t': 'dict', 'v': [['key%d' % i, i] for i in range(n - 1)] + [['key%d' % (n - 1), -1]]}
            else:
                t['a'] = 'x' * (n * 10 - 1) + 'y'
            steps.append(t)
    # near-duplicates: same call with one argument changed, to probe collisions
    for _ in range(draw(st.integers(0, 3))):
        s = copy.deepcopy(steps[draw(st.integers(0, len(steps) - 1))])
        which = draw(st.sampled_from(['a', 'b', 'name', 'usekw', 'i', 'retype', 'retype', 'spaces']))
        s.pop('kwrev', None)
        if which == 'retype':
            # the same call with an argument that is == but of another type (1 / 1.0 / True, 0 / False / 0.0)
            n = draw(st.sampled_from([0, 1, 1, 2]))
            forms = [n, float(n)] + ([bool(n)] if n in (0, 1) else [])
            base = copy.deepcopy(s)
            base['a'] = forms[0]
            base['b'] = draw(st.sampled_from([None, 'x', 2]))
            steps.append(base)
            s = copy.deepcopy(base)
            s['a'] = draw(st.sampled_from(forms[1:]))
            which = 'none'
        if which == 'spaces':
            # texts that differ only in white space are different values
            base = copy.deepcopy(s)
            pair = draw(st.sampled_from([('new york', 'newyork'), ('ab c', 'a bc'), (' x', 'x'), ('a\tb', 'a b'),
                                         ({'t': 'dict', 'v': [['k k', 1]]}, {'t': 'dict', 'v': [['kk', 1]]}),
                                         (['a b', 'c'], ['a', 'b c'])]))
            base['a'] = pair[0]
            steps.append(base)
            s = copy.deepcopy(base)
            s['a'] = pair[1]
            which = 'none'
        if which in ('a', 'b'):
            s[which] = draw(vals)
        elif which == 'name':
            s['name'] = 'n2' if s['name'] == 'n1' else 'n1'
        elif which == 'usekw':
            s['usekw'] = draw(st.sampled_from([x for x in (False, True, 'both') if x != s.get('usekw')]))
        else:
            s['i'] = draw(st.integers(0, len(ins) - 1))
            if ins[s['i']]['kind'] == 'property':
                s['a'], s['b'], s['usekw'] = None, None, False
        if ins[s['i']]['kind'] == 'property':
            s['a'], s['b'], s['usekw'] = None, None, False
        steps.append(s)
    # the same object instance passed to several calls (a list / dict built once and handed to two inputs)
    dirty_first = False
    if draw(st.sampled_from([False, False, True])):
        cands = [x for x in steps if isinstance(x.get('a'), (list, dict)) and ins[x['i']]['kind'] != 'property']
        if cands:
            x = draw(st.sampled_from(cands))
            x['share'] = 'shared0'
            y = copy.deepcopy(x)
            y.pop('kwrev', None)
            y['b'] = draw(st.sampled_from(['other', 7, None]))
            y['name'] = 'n2' if x['name'] == 'n1' else 'n1'
            steps.append(y)
            dirty_first = draw(st.booleans())
    # wrapped functions that change their (mutable) arguments in place: the key is the one of the call as it was made
    if draw(st.sampled_from([False, False, True])):
        for x in steps:
            if x.get('share') is None and ins[x['i']]['kind'] != 'property' and draw(st.booleans()):
                x['mutate_args'] = draw(st.integers(0, 11))
    prog = PS.assign_sids(dict(klass='instance', ins=ins, outs=[], steps=steps, ending='return', result=None,
                               extractor='none'))
    seeds = draw(st.tuples(st.sampled_from(HS.SEEDS), st.sampled_from(HS.SEEDS)))
    return {'prog': prog, 'seeds': list(seeds), 'other': draw(st.sampled_from(['OTHER', 0, None, [1, 2]])),
            'imports': list(draw(st.sampled_from([(False, False), (False, True), (True, False), (True, True)]))),
            'dirty_first': dirty_first}


def known_witness(ctx):
    for kf in ctx.known_findings:
        if kf.get('key') != 'set-order-in-key':
            continue
        decl = {'alias': 'in', 'kind': 'instance', 'resolver': False, 'capture': 'all', 'handler': 'none'}
        strs = {'t': 'set', 'v': ['a', 'b', 'c', 'dd', 'e']}
        step = {'t': 'in', 'i': 0, 'a': strs, 'b': None, 'usekw': False, 'beh': 'ret', 'ret': 1, 'name': 'n1'}
        prog = PS.assign_sids(dict(klass='instance', ins=[decl], outs=[], steps=[step], ending='return', result=None,
                                   extractor='none'))
        keys = []
        for seed in ('1', '2', '12345'):
            work = tempfile.mkdtemp(prefix='verif-c06k-')
            try:
                keys.append(tuple(k for k in child(seed).call({'cmd': 'record', 'dir': work, 'prog': prog})['keys']
                                  if k.startswith('input:')))
            finally:
                shutil.rmtree(work, ignore_errors=True)
        ints = copy.deepcopy(prog)
        ints['steps'][0]['a'] = {'t': 'set', 'v': [0, 8]}
        ints2 = copy.deepcopy(prog)
        ints2['steps'][0]['a'] = {'t': 'set', 'v': [8, 0]}
        ik = []
        for p in (ints, ints2):
            work = tempfile.mkdtemp(prefix='verif-c06k-')
            try:
                ik.append(tuple(k for k in child('0').call({'cmd': 'record', 'dir': work, 'prog': p})['keys']
                                if k.startswith('input:')))
            finally:
                shutil.rmtree(work, ignore_errors=True)
        if len(set(keys)) > 1 or ik[0] != ik[1]:
            ctx.known(kf['what'])
        else:
            ctx.note('known finding %s no longer reproduces' % kf['key'])


def replay(ctx, case):
    try:
        check_batch(ctx, case)
    finally:
        close_children()


def run(ctx):
    try:
        if ctx.shard == 0:
            known_witness(ctx)
        hyp_search(ctx, batches(), lambda c: check_batch(ctx, c), ctx.pick(120, 1500), label='batches')
    finally:
        close_children()
