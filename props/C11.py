"""C11 - recorded data cannot be altered through the values handed out."""
import copy

from hypothesis import strategies as st

from pbt import progsim as PS, values as V, zoo
from pbt.runner import Violation, hyp_search
from props.C01 import outputs_map, open_cassette
from props.C03 import norm

LEVEL = 'exploration'
SHARDS = {'quick': 8, 'thorough': 16}
RULE = ('(A) cassette level: recordings with mutable values (lists, dicts, sets, objects, nested, shared) are saved to '
        'every cassette type; a generated script of reads (get_data, recording[key], get_data_direct on one fetch, '
        'get_metadata, values passed to set_data before save) each followed by a generated in-place mutation (append, '
        'setitem, clear, attribute set, nested) and re-reads / re-fetches. (B) replay level: a recorded program is '
        'replayed by code that mutates every injected input, annotates every exception it catches (raising inputs are '
        'called twice, as in a retry) and mutates every value inside Playback.recorded_outputs, then replayed again '
        'unmodified. (C) copy-on-interception: the recording operation mutates the value an intercepted '
        'input/output returned right after the call. Oracle: a pristine model built independently from the case '
        'description: every later read / fetch / replay equals it, and two reads of one key are distinct objects. '
        'Non-trivial: a mutation that changed the value (mutated != pristine) followed by a re-read. Distinct = '
        'distinct case.')
ASSUMPTIONS = ['get_data_direct and get_metadata may expose the fetched object graph itself (documented); independence '
               'is required across fetches', 'output arguments under copy-on-interception are out of scope (the '
               'property speaks of intercepted values)']


def mutable_values():
    return st.one_of(V.values, V.aliasing_values()).filter(lambda d: V.is_mutable(V.build(d)))


READS = ['get_data', 'getitem', 'direct', 'metadata', 'original']


def check_cassette(ctx, case):
    kind, data_desc, meta_desc, script = case['cassette'], case['data'], case['meta'], case['script']
    with zoo.Zoo(kinds=('s3' if kind.startswith('s3') else kind,), s3_prefixes=('p/q' if kind == 's3p' else '',)) as z:
        cas = z.cassettes[0]
        memo = {}
        data = dict((k, V.build(d, memo)) for k, d in data_desc)
        meta = dict((k, V.build(d, memo)) for k, d in meta_desc)
        if not V.faithful({'d': data, 'm': meta}) or V.has_ref_hazard({'d': data, 'm': meta}):
            ctx.exclude('recording outside the faithful domain')
            return
        memo2 = {}
        want_data = dict((k, V.build(d, memo2)) for k, d in data_desc)
        want_meta = dict((k, V.build(d, memo2)) for k, d in meta_desc)
        rec = cas.create_new_recording('Cat')
        for k, _ in data_desc:
            rec.set_data(k, data[k])
        rec.add_metadata(meta)
        cas.save_recording(rec)
        rid = rec.id
        keys = [k for k, _ in data_desc]
        changed = 0

        def lookups():
            # listings scan (and may decode) what is stored: they are reads too and must not tie later fetches together
            list(cas.iter_recording_ids('Cat'))
            list(cas.iter_recordings_metadata('Cat'))
            list(cas.iter_recording_ids('Cat', metadata={'no-such-key': None}, limit=1))

        if case.get('lookup_first'):
            lookups()
        fetched = cas.get_recording(rid)
        for step in script:
            read, how = step['read'], step['how']
            k = keys[step['key'] % len(keys)] if keys else None
            if read == 'original':
                # the objects handed to set_data / add_metadata before save
                target = data[k] if k is not None else meta
            elif read == 'metadata' or k is None:
                target = fetched.get_metadata()
            elif read == 'get_data':
                target = fetched.get_data(k)
            elif read == 'getitem':
                target = fetched[k]
            else:
                target = fetched.get_data_direct(k)
            before = copy.deepcopy(target)
            if V.mutate_in_place(target, how) and target != before:
                changed += 1
            # same fetch: get_data / getitem must hand out fresh, pristine copies
            if read in ('get_data', 'getitem', 'original') and k is not None:
                a, b = fetched.get_data(k), fetched.get_data(k)
                if a != want_data[k]:
                    raise Violation('%s: after mutating a value obtained by %s, get_data(%r) returns %r, recorded was '
                                    '%r' % (z.name(cas), read, k, a, want_data[k]), 'get_data-copy')
                if a is b and V.is_mutable(a):
                    raise Violation('%s: two get_data(%r) calls returned the same object' % (z.name(cas), k),
                                    'get_data-copy')
            # a new fetch must be pristine whatever was mutated on the previous one
            if step.get('lookup'):
                lookups()
            again = cas.get_recording(rid)
            for kk in keys:
                if again.get_data(kk) != want_data[kk]:
                    raise Violation('%s: after mutating a value obtained by %s, a new fetch returns %r under %r, '
                                    'recorded was %r' % (z.name(cas), read, again.get_data(kk), kk, want_data[kk]),
                                    'fetch-independent')
            if again.get_metadata() != want_meta or cas.get_recording_metadata(rid) != want_meta:
                raise Violation('%s: after mutating a value obtained by %s, a new fetch has metadata %r, recorded was '
                                '%r' % (z.name(cas), read, again.get_metadata(), want_meta), 'fetch-independent')
            if step.get('refetch') or read in ('direct', 'metadata'):
                # get_data_direct / get_metadata may expose the fetched graph itself: that fetch is now dirty by the
                # caller's own doing, continue on a new one
                fetched = again
    ctx.case(case, changed > 0, classes=('cassette:' + kind, 'lookup-before-fetch' if case.get('lookup_first') or any(
        s.get('lookup') for s in script) else 'no-lookup') + tuple('read:' + s['read'] for s in script))


def renamed_variant(prog):
    p = copy.deepcopy(prog)
    for d in p['ins']:
        if d.get('resolver'):
            continue      # (a static fallback list cannot name the old alias per resolved name)
        old = d['alias']
        d['alias'] = old + '.v2'
        d['fallback'] = {'kind': 'list', 'aliases': [old]}
    return p


def same_value(a, b):
    if V.has_vector(a) or V.has_vector(b):
        return V.deep_same(a, b)
    return not a != b


def mutating_variant(prog):
    """Replayed code that mutates every value it is handed (mutate_last after each call)."""
    p = copy.deepcopy(prog)
    steps = []
    n = 0
    for s in p['steps']:
        steps.append(s)
        if s['t'] in ('in', 'out'):
            steps.append({'t': 'mutate_last', 'how': n})
            n += 1
    p['steps'] = steps
    return PS.assign_sids(p)


def check_replay(ctx, case):
    from playback.tape_recorder import TapeRecorder
    prog = copy.deepcopy(case['prog'])
    # every raising input call is made twice in a row (a retry): the second raise must be a fresh exception
    doubled = []
    for s_ in prog['steps']:
        doubled.append(s_)
        if s_['t'] == 'in' and s_['beh'] == 'raise':
            doubled.append(copy.deepcopy(s_))
    if case.get('renamed'):
        # every read is made twice in a row (the replayed code asks again): the second answer is as fresh as the first
        doubled = [x for s_ in doubled for x in ([s_, copy.deepcopy(s_)] if s_['t'] == 'in' and s_['beh'] == 'ret'
                                                else [s_])]
    prog['steps'] = doubled
    odd = case.get('odd_eq')
    if odd:
        # one input returns a value that cannot be compared with == (array-like: comparisons have no truth value;
        # plain object: identity equality), bare or inside a container; the harness compares it with V.deep_same
        rets = [s_ for s_ in prog['steps'] if s_['t'] == 'in' and s_['beh'] == 'ret']
        if rets:
            inner = {'t': odd['type'], 'v': [1, 2, 3]}
            shape = {'bare': inner, 'list': [0, inner], 'dict': {'t': 'dict', 'v': [['k', inner], ['n', 1]]},
                     'tuple': {'t': 'tuple', 'v': [inner, 'x']}}[odd['shape']]
            # (calls with the same key are given one behaviour by normalise_inputs below: the first one's)
            rets[odd['at'] % len(rets)]['ret'] = shape
    prog = PS.assign_sids(PS.normalise_inputs(prog))
    copy_on = case.get('copy_on')
    live_prog = prog
    if copy_on:
        # (C) the recording operation mutates what intercepted calls returned, right after the call
        live_prog = mutating_variant(prog)
        live_prog['params'] = {'copy_data_on_intercepion': True}
        if case.get('configured_base') is not None:
            # the operation class extends a class configured (earlier) WITHOUT copy-on-interception
            live_prog['base_params'] = dict(case['configured_base'])
        # whether a recording is kept is a separate matter (C17): classes recorded only on demand (rate 0, kept by
        # forced sampling) or sampled (rate 0.5, forced here so that there is a recording to look at) copy as well
        extra = case.get('copy_params')
        if extra:
            live_prog['params'].update(extra['params'])
            if extra['params'].get('sampling_rate', 1) < 1:
                at = 0 if extra.get('force_first') else len(live_prog['steps'])
                live_prog['steps'].insert(at, {'t': 'force'})
                live_prog = PS.assign_sids(live_prog)
    z, rec_cas, fetch_cas = open_cassette(case['cassette'])
    classes = []
    try:
        rec = TapeRecorder(rec_cas)
        rec.enable_recording()
        W = PS.World('LIVE')
        cls = PS.build_class(live_prog, rec, W)
        classes.append(cls)
        live = PS.execute(cls, live_prog)
        if live[0] == 'exc' and live[1] != 'Err':
            raise Violation('operation raised %s: %r' % (live[1], live[2]), 'live')
        rid = W.recording_ids[-1]
        if rec_cas is not fetch_cas:
            rec_cas.close()
            rec.tape_cassette = fetch_cas
        # what each call returned at capture time = what the body produced, rebuilt from the description
        want = {}
        for s in PS.iter_steps(prog['steps']):
            if s['t'] in ('in', 'out'):
                if s['beh'] == 'raise':
                    want[s['sid']] = ('e', V.ERRS[s.get('exc', 'Err')].__name__)
                else:
                    want[s['sid']] = ('v', V.build(s['ret']))
        sid_map = {}
        mut = mutating_variant(prog)
        calls_mut = [s for s in mut['steps'] if s['t'] in ('in', 'out')]
        calls_orig = [s for s in prog['steps'] if s['t'] in ('in', 'out')]
        for a, b in zip(calls_mut, calls_orig):
            sid_map[a['sid']] = b['sid']
        changed = 0
        first_ro = None
        replay_mut, replay_prog = mut, prog
        if case.get('renamed'):
            # the replaying code has renamed its inputs since the recording was made and lists the old alias as fallback
            replay_mut, replay_prog = renamed_variant(mut), renamed_variant(prog)
        for round_, (p, smap) in enumerate([(replay_mut, sid_map), (replay_prog, None), (replay_mut, sid_map),
                                            (replay_prog, None)]):
            W2 = PS.World('REPLAY')
            W2.mutate_exceptions = True
            cls2 = PS.build_class(p, rec, W2)
            classes.append(cls2)
            seen_at_call = {}
            orig_call_step = None

            def playback_function(recording):
                out = PS.execute(cls2, p)
                if out[0] == 'exc':
                    raise out[2]

            try:
                pb = rec.play(rid, playback_function)
            except Exception as e:  # pylint: disable=broad-except
                raise Violation('play() #%d raised %s: %s' % (round_ + 1, type(e).__name__, e), 'replay-raises')
            if W2.stale_exceptions:
                raise Violation('replay #%d: a recorded exception was raised again carrying the annotations that replayed '
                                'code had put on an earlier raise of it: %r' % (round_ + 1, W2.stale_exceptions[:2]),
                                'exception-shared')
            for key in list(pb.original_recording.get_all_keys()):
                stored = pb.original_recording.get_data(key)
                if isinstance(stored, dict) and getattr(stored.get('exception'), 'verif_annotations', None):
                    raise Violation('replay #%d: the exception stored under %r now carries annotations made by replayed '
                                    'code: %r' % (round_ + 1, key, stored['exception'].verif_annotations),
                                    'exception-shared')
            # values observed at the call sites: the digest holds deep copies taken at the moment of the call
            digest = dict((x[1], x) for x in pb_digest(W2))
            for sid, obs in digest.items():
                osid = smap[sid] if smap else sid
                w = want[osid]
                if w[0] == 'v':
                    if obs[0] != 'v' or not same_value(obs[2], w[1]):
                        raise Violation('replay #%d: call %s was handed %r, recorded value was %r (earlier replays '
                                        'mutated what they were handed%s)' % (
                                            round_ + 1, osid, obs[2], w[1],
                                            '; recording made with copy-on-interception while the operation mutated '
                                            'returned values' if copy_on else ''), 'replay-injection')
                elif obs[0] != 'e' or obs[2] != w[1]:
                    raise Violation('replay #%d: call %s gave %r, recorded %r' % (round_ + 1, osid, obs, w),
                                    'replay-injection')
            ro = norm(outputs_map(pb.recorded_outputs, 'recorded_outputs'))
            if first_ro is None:
                first_ro = copy.deepcopy(ro)
            elif not same_value(ro, first_ro):
                raise Violation('Playback.recorded_outputs changed between replays: first %r, now %r' % (first_ro, ro),
                                'recorded-outputs')
            # mutate everything reachable from the Playback that was handed out
            pristine = dict((o.key, pb.original_recording.get_data(o.key)) for o in pb.recorded_outputs)
            for o in pb.recorded_outputs:
                V.mutate_in_place(o.value, round_)
                if isinstance(o.value, dict) and isinstance(o.value.get('args'), list):
                    for a in o.value['args']:
                        V.mutate_in_place(a, round_)
            for o in pb.recorded_outputs:
                again = pb.original_recording.get_data(o.key)
                if not same_value(norm({o.key: again}), norm({o.key: pristine[o.key]})):
                    raise Violation('mutating Playback.recorded_outputs changed what the recording returns under %r: '
                                    '%r, was %r' % (o.key, again, pristine[o.key]), 'recorded-outputs')
            if p is replay_mut:
                changed += sum(1 for s in calls_orig if s['beh'] != 'raise' and V.is_mutable(V.build(s['ret'])))
    finally:
        for c in classes:
            PS.forget_class(c)
        z.__exit__(None, None, None)
    ctx.case(case, changed > 0, classes=('replay', 'cassette:' + case['cassette'], 'copy-on' if copy_on else 'copy-off') + (
        ('odd-equality:%s' % case['odd_eq']['type'],) if case.get('odd_eq') else ()) + (
            ('renamed-inputs-with-fallback',) if case.get('renamed') else ()) + (
                ('copy-on:base-class-configured-without-copy',) if copy_on and case.get('configured_base') is not None
                else ()) + (
        ('copy-on:params=%s' % sorted((case.get('copy_params') or {}).get('params', {}).items()),) if copy_on else ()))


def pb_digest(W):
    """Per call site: (kind, sid, deep copy of what the call site was handed, taken at the moment of the call)."""
    return W.call_copies


def cassette_cases():
    data = st.lists(st.tuples(st.sampled_from(['k1', 'k2', 'input: x args=[], kwargs=[]']), mutable_values()),
                    min_size=1, max_size=3, unique_by=lambda kv: kv[0]).map(lambda l: [list(x) for x in l])
    meta = st.lists(st.tuples(st.sampled_from(['m1', 'm2']), st.one_of(mutable_values(), V.scalars)), max_size=2,
                    unique_by=lambda kv: kv[0]).map(lambda l: [list(x) for x in l])
    step = st.fixed_dictionaries({'read': st.sampled_from(READS), 'key': st.integers(0, 3), 'how': st.integers(0, 30),
                                  'refetch': st.booleans(), 'lookup': st.sampled_from([False, False, True])})
    return st.fixed_dictionaries({'kind': st.just('cassette'),
                                  'cassette': st.sampled_from(['memory', 'memory', 'file', 's3', 's3p']),
                                  'data': data, 'meta': meta, 'script': st.lists(step, min_size=1, max_size=5),
                                  'lookup_first': st.booleans()})


def replay_cases():
    # one value family per program (objects-without-aliasing / aliasing-without-list-state), see DESIGN.md 2.2
    fam_a = st.one_of(V.small_values, V.values.filter(lambda d: V.is_mutable(V.build(d))))
    fam_b = V.aliasing_values()
    def progs(vals):
        return PS.programs(values=vals, max_steps=6, threads=False, in_behs=('ret', 'ret', 'ret', 'raise'),
                           out_behs=('ret', 'ret', 'raise'), endings=('return',))

    # values that cannot be compared with == only join family A: an instance holding a list next to aliased values is
    # outside the serializer's faithful domain (DESIGN.md 2.2)
    odd = st.one_of(st.none(), st.fixed_dictionaries({
        'type': st.sampled_from(['vector', 'opaque']), 'at': st.integers(0, 5),
        'shape': st.sampled_from(['bare', 'list', 'dict', 'tuple'])}))
    prog_and_odd = st.one_of(st.tuples(progs(fam_a), odd), st.tuples(progs(fam_a), odd),
                             st.tuples(progs(fam_b), st.none()))
    return st.fixed_dictionaries({'kind': st.just('replay'), 'prog_odd': prog_and_odd,
                                  'cassette': st.sampled_from(['memory', 'memory', 'file', 's3', 'async']),
                                  'copy_on': st.booleans(), 'renamed': st.sampled_from([False, False, True]),
                                  'configured_base': st.sampled_from([None, None, {}, {'sampling_rate': 1}]),
                                  'copy_params': st.sampled_from([
                                      None, None, {'params': {'sampling_rate': 0}, 'force_first': True},
                                      {'params': {'sampling_rate': 0}, 'force_first': False},
                                      {'params': {'sampling_rate': 0.5}, 'force_first': True},
                                      {'params': {'sampling_rate': 2}},
                                      {'params': {'ignore_enforced_sampling': True}}])}).map(_split_prog_odd)


def _split_prog_odd(case):
    case = dict(case)
    case['prog'], case['odd_eq'] = case.pop('prog_odd')
    return case


def replay(ctx, case):
    if case['kind'] == 'cassette':
        check_cassette(ctx, case)
    else:
        check_replay(ctx, case)


def run(ctx):
    ok = hyp_search(ctx, cassette_cases(), lambda c: check_cassette(ctx, c), ctx.pick(150, 3000), label='cassette')
    if ok:
        hyp_search(ctx, replay_cases(), lambda c: check_replay(ctx, c), ctx.pick(100, 2000), label='replay')
    ctx.extra['value_filter'] = dict(V.STATS)
