"""C13 - comparison runs always finish and leave no worker behind."""
from hypothesis import strategies as st

from pbt import procfault as PF
from pbt.runner import Violation, hyp_search, guarded

LEVEL = 'exploration'
SHARDS = {'quick': 12, 'thorough': 16}
RULE = ('Scenarios for the REAL Equalizer with forked workers: 1-8 recording ids with hangs past the timeout and worker '
        'deaths at first / middle / last / consecutive / recycle-boundary positions (plus late answers and ordinary '
        'verdicts), recycle rate 1-4, timeout 0.2-1.2 s, consumed fully, closed after k items, aborted by an exception '
        'in the consumer after k items, never started, or overlapped (a preview run left open after k items while a second '
        'run of the same equalizer completes, then abandoned). Oracle: (i) the Comparison of a hung / dead id arrives within '
        'timeout + 5 s (the wait loop polls at 1 s) and the whole run within 10x its nominal worst case - this hard cap '
        'is the one place where a time limit is a violation, termination being the property; a faulty id is reported '
        'as a framework failure and the run continues with a fresh worker (later ids get their own verdict); (ii) no '
        'worker pid serves more replays than the recycle rate (counted from a pipe written by the player); (iii) after '
        'the run completed or was abandoned, within 2 s no non-zombie child of the checking process remains. '
        'Non-trivial: >= 1 process fault, or abandonment while a worker is alive. Distinct = distinct scenario.')
ASSUMPTIONS = ['"always finishes" is observed as bounded response, not proved', 'the harness process has no other '
               'children while a scenario runs (children present before the scenario are ignored)']


def nominal(scenario):
    bs = [scenario['script'][i] for i in scenario['ids']]
    per_fault = scenario['timeout'] + 1.0 + 1.0
    return 1.0 + 0.3 * len(bs) + per_fault * sum(1 for b in bs if b in PF.PROCESS_FAULTS)


def check(scenario, obs):
    ids, script = scenario['ids'], scenario['script']
    consume = scenario.get('consume', 'full')
    if obs['error'] and obs['error'].startswith('HARD-CAP'):
        raise Violation('the comparison run did not terminate: %s (verdicts so far %r)' % (
            obs['error'], [(c['recording_id'], c['status']) for c in obs['comparisons']]), 'termination')
    if obs['error']:
        raise Violation('run_comparison raised %s' % obs['error'], 'run-raises')
    comps = obs['comparisons']
    if isinstance(consume, list) and consume[0] == 'overlap':
        # two runs of one equalizer: what is required here is that both end and nothing is left behind
        if len(comps) < len(ids):
            raise Violation('the second run yielded %d comparisons for %d ids' % (len(comps) - obs.get('preview', 0),
                                                                                 len(ids)), 'count')
        if obs['wall'] > 10 * 2 * nominal(scenario):
            raise Violation('runs took %.1f s, nominal worst case %.1f s' % (obs['wall'], 2 * nominal(scenario)),
                            'termination')
        if obs['children_left']:
            raise Violation('worker processes left behind after a preview run was abandoned and a second run of the same '
                            'equalizer completed: %r' % (obs['children_left'],), 'leak')
        return
    want_n = len(ids) if consume == 'full' else 0 if consume == 'never' else min(consume[1], len(ids))
    if len(comps) != want_n:
        raise Violation('consumer received %d comparisons, expected %d (consume=%r)' % (len(comps), want_n, consume),
                        'count')
    for c, dt in zip(comps, obs['times']):
        b = script[c['recording_id']]
        if b in PF.PROCESS_FAULTS:
            if dt > scenario['timeout'] + 5.0:
                raise Violation('comparison of %s (%s) took %.1f s with a timeout of %.1f s' % (
                    c['recording_id'], b, dt, scenario['timeout']), 'bounded-response')
            if c['status'] != 'EqualizerFailure':
                raise Violation('%s (%s) reported as %s, expected a framework failure' % (c['recording_id'], b,
                                                                                          c['status']), 'verdict')
        elif dt > 5.0:
            raise Violation('comparison of %s (%s) took %.1f s' % (c['recording_id'], b, dt), 'bounded-response')
        elif c['status'] != PF.expected_status(b).name:
            raise Violation('%s (%s) reported as %s after earlier faults; verdicts %r' % (
                c['recording_id'], b, c['status'], [(x['recording_id'], x['status']) for x in comps]), 'continues')
    if obs['wall'] > 10 * nominal(scenario):
        raise Violation('run took %.1f s, nominal worst case %.1f s' % (obs['wall'], nominal(scenario)), 'termination')
    if scenario['dedicated']:
        per_pid = {}
        for pid, rid in obs['tasks']:
            per_pid.setdefault(pid, []).append(rid)
        for pid, rids in per_pid.items():
            if pid == obs['harness_pid']:
                raise Violation('replay ran in the parent process although a dedicated process was requested',
                                'dedicated')
            if len(rids) > scenario['recycle']:
                raise Violation('worker %d served %d replays %r, recycle rate is %d' % (pid, len(rids), rids,
                                                                                       scenario['recycle']), 'recycle')
    if obs['children_left']:
        raise Violation('worker processes left behind after the run was %s: %r' % (
            'completed' if consume == 'full' else 'abandoned (%r)' % (consume,), obs['children_left']), 'leak')


def run_one(ctx, scenario):
    obs = PF.run_scenario(scenario)
    try:
        check(scenario, obs)
    except Violation as v:
        # a healthy replay reported as timed out / dead may be an artefact of machine load (the scenario timeouts are
        # deliberately short): confirm with a ten times longer timeout before calling it a violation
        from props.C08 import timing_suspect
        if v.clause not in ('continues', 'bounded-response', 'verdict') or not timing_suspect(scenario, obs):
            raise
        slow = dict(scenario, timeout=max(5.0, 10 * scenario['timeout']), hard_cap_s=240)
        obs = PF.run_scenario(slow)
        check(slow, obs)
        ctx.count('timing-retry: passed with a longer timeout')
    bs = [scenario['script'][i] for i in scenario['ids']]
    consume = scenario.get('consume', 'full')
    pos = set()
    for n, b in enumerate(bs):
        if b in PF.PROCESS_FAULTS:
            pos.add('first' if n == 0 else 'last' if n == len(bs) - 1 else 'middle')
            if n + 1 < len(bs) and bs[n + 1] in PF.PROCESS_FAULTS:
                pos.add('consecutive')
            if (n + 1) % scenario['recycle'] == 0 or n % scenario['recycle'] == 0:
                pos.add('recycle-boundary')
    nt = any(b in PF.PROCESS_FAULTS for b in bs) or (consume != 'full' and consume != 'never' and scenario['dedicated'])
    ctx.case(scenario, nt, classes=tuple('pos:' + p for p in pos) + tuple(set('beh:' + b for b in bs)) + (
        'consume:%s' % (consume if isinstance(consume, str) else consume[0]), 'recycle:%d' % scenario['recycle'],
        'dedicated' if scenario['dedicated'] else 'in-process'))


@st.composite
def scenarios(draw):
    n = draw(st.integers(1, 8))
    ids = ['rec%d' % i for i in range(n)]
    pool = ['equal', 'equal', 'equal', 'different', 'player_raises', 'exit', 'hang', 'hang', 'late',
            'hang_sigterm_ignored', 'dies_after_giveup', 'bad_answer', 'killed_in_poll']
    behs = [draw(st.sampled_from(pool)) for _ in ids]
    faults = [i for i, b in enumerate(behs) if b in PF.PROCESS_FAULTS]
    for i in faults[3:]:
        behs[i] = 'equal'
    consume = draw(st.sampled_from(['full', 'full', 'close', 'raise', 'never', 'overlap']))
    if consume in ('close', 'raise'):
        consume = [consume, draw(st.integers(1, n))]
    elif consume == 'overlap':
        consume = [consume, draw(st.integers(1, n))]
        behs = [b if b in ('equal', 'different', 'player_raises') else 'equal' for b in behs]
    return {'ids': ids, 'script': dict(zip(ids, behs)), 'dedicated': True, 'recycle': draw(st.integers(1, 4)),
            'timeout': draw(st.sampled_from([0.2, 0.5, 1.2])), 'keep': False, 'consume': consume}


FIXED = [
    {'ids': ['a', 'b', 'c'], 'script': {'a': 'equal', 'b': 'killed_in_poll', 'c': 'equal'}, 'dedicated': True,
     'recycle': 3, 'timeout': 0.3, 'keep': False, 'consume': 'full', 'hard_cap_s': 30},
    {'ids': ['a', 'b', 'c'], 'script': {'a': 'hang', 'b': 'hang', 'c': 'equal'}, 'dedicated': True, 'recycle': 2,
     'timeout': 0.2, 'keep': False, 'consume': 'full'},
    {'ids': ['a', 'b', 'c', 'd'], 'script': {'a': 'equal', 'b': 'equal', 'c': 'equal', 'd': 'equal'}, 'dedicated': True,
     'recycle': 1, 'timeout': 0.2, 'keep': False, 'consume': ['close', 2]},
    {'ids': ['a', 'b', 'c', 'd', 'e'], 'script': {'a': 'equal', 'b': 'equal', 'c': 'equal', 'd': 'equal', 'e': 'exit'},
     'dedicated': True, 'recycle': 2, 'timeout': 0.2, 'keep': False, 'consume': ['raise', 3]},
    {'ids': ['a', 'b'], 'script': {'a': 'equal', 'b': 'equal'}, 'dedicated': True, 'recycle': 3, 'timeout': 0.2,
     'keep': False, 'consume': 'never'},
    {'ids': ['a', 'b', 'c'], 'script': {'a': 'equal', 'b': 'equal', 'c': 'different'}, 'dedicated': True, 'recycle': 4,
     'timeout': 0.5, 'keep': False, 'consume': ['overlap', 1]},
    {'ids': ['a', 'b', 'c', 'd'], 'script': {'a': 'equal', 'b': 'equal', 'c': 'equal', 'd': 'equal'}, 'dedicated': True,
     'recycle': 2, 'timeout': 0.5, 'keep': False, 'consume': ['overlap', 3]},
]


def replay(ctx, case):
    check(case, PF.run_scenario(case))


def run(ctx):
    if ctx.shard == 0:
        for sc in FIXED:
            guarded(ctx, sc, lambda c: run_one(ctx, c))
    if not ctx.violations:
        hyp_search(ctx, scenarios(), lambda c: run_one(ctx, c), ctx.pick(12, 180), label='scenarios',
                   shrink=not ctx.quick)
