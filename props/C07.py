"""C07 - stored recordings round-trip through every cassette."""
import copy

from hypothesis import strategies as st
from hypothesis.stateful import rule, precondition

from pbt import values as V, zoo
from pbt.runner import Violation, run_machine, guarded
from pbt.stateful import HistoryMachine, replay_history

LEVEL = 'exploration'
SHARDS = {'quick': 4, 'thorough': 16}
RULE = ('Rule-based state machine over one instance of every real cassette type (in-memory, file-based over a '
        'scratch directory, S3 over the fake bucket with key prefixes "", "p", "p/q", "pq" sharing one bucket): '
        '(plus one S3 cassette configured with an infrequent-access threshold and a size-based sampling calculator that always keeps): save(category, data, metadata) / fetch / fetch_metadata / fetch_unknown / re-save (fetch a stored recording, add metadata, save it again under the same id) histories; the caller changes every metadata dict it was handed after checking it; data keys are '
        'recorder-shaped and hostile texts (quotes, backslashes, braces, separators, newlines, unicode, slashes), '
        'values and metadata from the faithful-domain generators (objects-without-aliasing and '
        'aliasing-without-list-state families, shared sub-objects across keys). Oracle: dict model id -> (keys, '
        'data, metadata) built independently from the case description; unknown ids must raise NoSuchRecording. '
        'A second part has four threads save different recordings into one cassette at the same time (OS scheduling) and '
        'fetches them all. Non-trivial: a fetch of a recording with >= 2 keys and a non-scalar value made after a later save, or an '
        'unknown-id fetch. Distinct = distinct history prefix up to and including that step.')
ASSUMPTIONS = ['values restricted to the faithful domain of jsonpickle 0.9.3 on this interpreter (DESIGN.md 2.2); '
               'whole recordings additionally pass decode(encode(x)) == x on plain containers',
               'data keys that are jsonpickle tags (py/...) excluded',
               'S3: data key "_metadata" excluded by construction (known finding)']

CATEGORIES = ['A', 'AB', 'A_B', 'A_', 'B', 'Cat']
def _always(category, size, recording):
    return 1.5


S3_PREFIXES = ('', 'p', 'p/q', 'pq', ('ia', {'infrequent_access_kb_threshold': 0.0001, 'sampling_calculator': _always}))
KEY_SAMPLES = ['input: a "q" args={"py/tuple": [1]}, kwargs=[]', 'k/\\{}', u'é \n\t', "it's", 'output: x #1.output',
               'output: x #1.result', '_metadata', '', ' ', 'a.b', u' ', '{"a": 1}', 'k,=:']
key_texts = st.one_of(st.sampled_from(KEY_SAMPLES), V.texts, st.text(max_size=12)).filter(
    lambda k: not k.startswith('py/'))
meta_keys = st.one_of(st.sampled_from(['m', 'x y', u'é', '_tape_recorder_incomplete_recording']), st.text(max_size=4)).filter(
    lambda k: not k.startswith('py/'))


def pairs(keys, vals, max_size):
    return st.lists(st.tuples(keys, vals), max_size=max_size, unique_by=lambda kv: kv[0]).map(
        lambda kvs: [list(kv) for kv in kvs])


recordings = st.one_of(
    st.tuples(st.just('objects'), pairs(key_texts, V.values, 6), pairs(meta_keys, V.small_values, 3)),
    st.tuples(st.just('aliasing'), pairs(key_texts, V.aliasing_values(), 6), pairs(meta_keys, V.aliasing_values(), 3)),
    st.tuples(st.just('scalars'), pairs(key_texts, V.scalars, 12), pairs(meta_keys, V.scalars, 3)),
)


def nonscalar(desc):
    return isinstance(desc, (list, dict))


class Interp(object):
    def __init__(self, ctx):
        self.ctx = ctx
        self.zoo = zoo.Zoo(kinds=('memory', 'file', 's3'), s3_prefixes=S3_PREFIXES).__enter__()
        self.saved = []   # dict(cas=i, id=..., keys=[...], data={k: value}, meta={...}, nontriv=bool, index=n)
        self.nsaves = 0
        self.history = []

    def close(self):
        self.zoo.__exit__(None, None, None)

    def _nosuch(self):
        from playback.exceptions import NoSuchRecording
        return NoSuchRecording

    def apply(self, op):
        self.history.append(op)
        getattr(self, 'op_' + op['op'])(op)

    def op_save(self, op):
        cas = self.zoo.cassettes[op['cas']]
        kind = self.zoo.kind(cas)
        data_desc = op['data']
        if kind == 's3':
            kept = [kv for kv in data_desc if kv[0] != '_metadata']
            if len(kept) != len(data_desc):
                self.ctx.exclude('s3 data key _metadata (known finding)')
            data_desc = kept
        memo, memo2 = {}, {}
        data = dict((k, V.build(d, memo)) for k, d in data_desc)
        meta = dict((k, V.build(d, memo)) for k, d in op['meta'])
        # independent model copy (second build, never handed to the code under test)
        exp_data = dict((k, V.build(d, memo2)) for k, d in data_desc)
        exp_meta = dict((k, V.build(d, memo2)) for k, d in op['meta'])
        if not V.faithful({'d': data, 'm': meta}) or V.has_ref_hazard({'d': data, 'm': meta}):
            self.ctx.exclude('recording outside the faithful domain (cross-key reference hazard)')
            return
        rec = cas.create_new_recording(op['cat'])
        for k, d in data_desc:
            rec.set_data(k, data[k])
        rec.add_metadata(meta)
        cas.save_recording(rec)
        # what was saved is what counts: the caller goes on using (and changing) its own objects afterwards
        for n, v in enumerate(list(data.values()) + [meta] + list(meta.values())):
            V.mutate_in_place(v, op.get('mutate_seed', 0) + n)
        self.nsaves += 1
        self.ctx.count('save:%s' % kind)
        self.ctx.count('save:family=%s' % op['family'])
        self.saved.append(dict(cas=op['cas'], id=rec.id, data=exp_data, meta=exp_meta, at=self.nsaves,
                               nontriv=len(data_desc) >= 2 and any(nonscalar(d) for _, d in data_desc),
                               family=op['family']))

    def op_resave(self, op):
        """Annotate a stored recording: fetch it, add metadata, save it again under the same id."""
        s = self._pick(op['n'])
        if s is None:
            return
        cas = self.zoo.cassettes[s['cas']]
        if op.get('prefetch'):
            cas.get_recording_metadata(s['id'])
        rec = cas.get_recording(s['id'])
        rec.add_metadata(dict((k, V.build(d)) for k, d in op['meta']))
        cas.save_recording(rec)
        s['meta'] = dict(s['meta'])
        s['meta'].update(dict((k, V.build(d)) for k, d in op['meta']))
        s['resaved'] = s.get('resaved', 0) + 1
        self.ctx.count('resave:%s' % self.zoo.kind(cas))

    def _pick(self, n):
        return self.saved[n % len(self.saved)] if self.saved else None

    def op_fetch(self, op):
        s = self._pick(op['n'])
        if s is None:
            return
        cas = self.zoo.cassettes[s['cas']]
        name = self.zoo.name(cas)
        got = cas.get_recording(s['id'])
        if got is None:
            raise Violation('%s: get_recording(%r) returned None for a saved recording' % (name, s['id']), 'fetch')
        if got.id != s['id']:
            raise Violation('%s: fetched id %r != saved id %r' % (name, got.id, s['id']), 'id')
        keys = list(got.get_all_keys())
        if sorted(keys) != sorted(s['data']) or len(keys) != len(s['data']):
            raise Violation('%s: key set differs for %s: got %r, saved %r' % (name, s['id'], sorted(keys),
                                                                            sorted(s['data'])), 'keys')
        for k, want in s['data'].items():
            have = got.get_data(k)
            if have != want or type(have) is not type(want):
                raise Violation('%s: data under key %r differs: got %r, saved %r' % (name, k, have, want), 'data')
        if got.get_metadata() != s['meta']:
            raise Violation('%s: metadata differs: got %r, saved %r' % (name, got.get_metadata(), s['meta']),
                            'metadata')
        only = cas.get_recording_metadata(s['id'])
        if only != s['meta']:
            raise Violation('%s: get_recording_metadata differs from the saved metadata: got %r, saved %r' % (
                name, only, s['meta']), 'metadata-only')
        # the caller goes on using (and changing) what it was handed; later fetches must not see that
        only['__changed_by_caller__'] = True
        for n, v in enumerate(list(only.values())):
            V.mutate_in_place(v, n)
        later = self.nsaves > s['at']
        self.ctx.case(self.history, s['nontriv'] and later,
                      classes=('fetch:%s' % self.zoo.kind(cas), 'fetch:family=%s' % s['family'],
                               'fetch:after-later-save' if later else 'fetch:latest',
                               'fetch:resaved' if s.get('resaved') else 'fetch:saved-once'))

    def op_fetch_unknown(self, op):
        cas = self.zoo.cassettes[op['cas']]
        name = self.zoo.name(cas)
        if op['how'] == 'fresh':
            rid = op['id']
        else:
            s = self._pick(op['n'])
            if s is None or s['cas'] == op['cas']:
                return
            rid = s['id']
            if any(x['id'] == rid and x['cas'] == op['cas'] for x in self.saved):
                return
        for what, call in (('get_recording', cas.get_recording), ('get_recording_metadata', cas.get_recording_metadata)):
            try:
                got = call(rid)
            except self._nosuch():
                continue
            raise Violation('%s: %s(%r) for an id never saved there returned %r instead of signalling '
                            'NoSuchRecording' % (name, what, rid, got), 'unknown-id')
        self.ctx.case(self.history, True, classes=('unknown:%s:%s' % (self.zoo.kind(cas), op['how']),))


NCAS = 2 + len(S3_PREFIXES)
HEX = st.text(alphabet='0123456789abcdef', min_size=32, max_size=32)
unknown_ids = st.one_of(
    st.tuples(st.sampled_from(CATEGORIES), HEX).map(lambda t: '%s/%s' % t),
    st.tuples(st.sampled_from(CATEGORIES), st.sampled_from(['20240101', '20261002']), HEX).map(lambda t: '%s/%s/%s' % t),
    st.sampled_from(['nope', 'A', 'A/', 'x/y/z']))


KINDS = ['save'] * 4 + ['fetch'] * 4 + ['unknown_fresh', 'unknown_foreign', 'resave', 'resave']


def make_machine(ctx):
    class Machine(HistoryMachine):
        def make_interp(self):
            return Interp(ctx)

        @rule(kind=st.sampled_from(KINDS), data=st.data())
        def op(self, kind, data):
            if kind != 'save' and not self.interp.saved and kind != 'unknown_fresh':
                kind = 'save'
            if kind == 'save':
                rec = data.draw(recordings)
                self.step({'op': 'save', 'cas': data.draw(st.integers(0, NCAS - 1)),
                           'cat': data.draw(st.sampled_from(CATEGORIES)), 'family': rec[0], 'data': rec[1],
                           'meta': rec[2], 'mutate_seed': data.draw(st.integers(0, 20))})
            elif kind == 'fetch':
                self.step({'op': 'fetch', 'n': data.draw(st.integers(0, 50))})
            elif kind == 'resave':
                self.step({'op': 'resave', 'n': data.draw(st.integers(0, 50)), 'prefetch': data.draw(st.booleans()),
                           'meta': data.draw(pairs(meta_keys, V.scalars, 2))})
            elif kind == 'unknown_fresh':
                self.step({'op': 'fetch_unknown', 'cas': data.draw(st.integers(0, NCAS - 1)), 'how': 'fresh',
                           'id': data.draw(unknown_ids)})
            else:
                self.step({'op': 'fetch_unknown', 'cas': data.draw(st.integers(0, NCAS - 1)), 'how': 'foreign',
                           'n': data.draw(st.integers(0, 50))})

    return Machine


def replay(ctx, case):
    if isinstance(case, dict) and 'concurrent' in case:
        concurrent_saves(ctx)
        return
    replay_history(Interp(ctx), case)


def known_witness(ctx):
    """Known finding: S3 cassette silently drops a data key literally named '_metadata'."""
    for kf in ctx.known_findings:
        if kf.get('key') != 's3-data-key-_metadata':
            continue
        with zoo.Zoo(kinds=('s3',), s3_prefixes=('',)) as z:
            cas = z.cassettes[0]
            rec = cas.create_new_recording('Cat')
            rec.set_data('_metadata', 5)
            rec.set_data('other', 6)
            rec.add_metadata({'m': 1})
            cas.save_recording(rec)
            got = cas.get_recording(rec.id)
            if '_metadata' not in list(got.get_all_keys()) and got.get_metadata() == {'m': 1}:
                ctx.known(kf['what'])
            else:
                ctx.note('known finding %s no longer reproduces' % kf['key'])


def concurrent_saves(ctx, nthreads=4, per_thread=15):
    """Several threads of one process save different recordings into the same cassette at the same time."""
    import threading
    with zoo.Zoo(kinds=('memory', 'file', 's3'), s3_prefixes=('', 'p')) as z:
        for cas in z.cassettes:
            name = z.name(cas)
            saved, errors = [], []
            start = threading.Barrier(nthreads)

            def worker(t):
                try:
                    start.wait(5)
                except threading.BrokenBarrierError:
                    pass
                for n in range(per_thread):
                    try:
                        rec = cas.create_new_recording('T%d' % t)
                        rec.set_data('who', [t, n])
                        rec.set_data('payload', 'x' * (50 * (n + 1)))
                        # values with sub-objects that are reachable several times (the serializer writes
                        # back-references for them), under several keys and in the metadata
                        shared = ['shared', t, n]
                        rec.set_data('graph', {'first': shared, 'again': [shared, shared], 'more': [[n], shared]})
                        rec.set_data('graph2', [shared, {'k': shared}])
                        rec.add_metadata({'t': t, 'n': n, 'tags': [shared, shared]})
                        cas.save_recording(rec)
                        saved.append((rec.id, t, n))
                    except Exception as e:  # pylint: disable=broad-except
                        errors.append((t, n, '%s: %s' % (type(e).__name__, e)))

            ths = [threading.Thread(target=worker, args=(t,)) for t in range(nthreads)]
            import sys as _sys
            old_interval = _sys.getswitchinterval()
            _sys.setswitchinterval(1e-6)    # threads are preempted every few bytecodes: saves really overlap
            try:
                for th in ths:
                    th.start()
                for th in ths:
                    th.join()
            finally:
                _sys.setswitchinterval(old_interval)
            case = {'concurrent': name, 'threads': nthreads, 'per_thread': per_thread}
            if errors:
                raise Violation('%s: save failed while other threads were saving: %r' % (name, errors[:3]),
                                'concurrent-save', case=case)
            for rid, t, n in saved:
                try:
                    got = cas.get_recording(rid)
                    sh = ['shared', t, n]
                    md = {'t': t, 'n': n, 'tags': [sh, sh]}
                    ok = got.id == rid and got.get_data('who') == [t, n] and got.get_metadata() == md \
                        and got.get_data('payload') == 'x' * (50 * (n + 1)) and \
                        got.get_data('graph') == {'first': sh, 'again': [sh, sh], 'more': [[n], sh]} and \
                        got.get_data('graph2') == [sh, {'k': sh}] and \
                        cas.get_recording_metadata(rid) == md
                    detail = 'fetched id %r who %r metadata %r' % (got.id, got.get_data('who'), got.get_metadata())
                except Exception as e:  # pylint: disable=broad-except
                    ok, detail = False, '%s: %s' % (type(e).__name__, e)
                if not ok:
                    raise Violation('%s: recording %s saved by thread %d (#%d) while other threads were saving does not '
                                    'round-trip: %s' % (name, rid, t, n, detail), 'concurrent-save', case=case)
            ctx.case(case, True, classes=('concurrent-saves:' + z.kind(cas),))


def run(ctx):
    if ctx.shard == 0:
        known_witness(ctx)
    from pbt.runner import guarded
    for rounds in range(ctx.pick(2, 10)):
        if not guarded(ctx, {'concurrent': 'all', 'round': rounds, 'shard': ctx.shard}, lambda c: concurrent_saves(ctx)):
            return
    run_machine(ctx, make_machine(ctx), ctx.pick(120, 600), ctx.pick(30, 40), label='machine')
    ctx.extra['value_filter'] = dict(V.STATS)
