"""C10 - lookup returns exactly the matching recordings, identically on all cassettes."""
from hypothesis import strategies as st
from hypothesis.stateful import rule, precondition

from pbt import refmatch, zoo
from pbt.refmatch import UNSPECIFIED
from pbt.runner import Violation, run_machine
from pbt.stateful import HistoryMachine, replay_history

LEVEL = 'exploration'
SHARDS = {'quick': 4, 'thorough': 16}
RULE = ('State machine: the same logical recordings (category from {A, AB, A_B, A_, B, BA}; JSON-native metadata with '
        'absent keys; incomplete flag True/False/absent; a label; a class-reference value) are saved to every real '
        'cassette (in-memory, file, S3 with prefixes "", "p", "pq", "p/q" in one bucket); saves on the S3 cassettes may be '
        'cut short by a storage fault after the first or second bucket write; a stored recording may be fetched, '
        'annotated and saved again under its id on every cassette; lookups (category, filter, '
        'limit in {None,1..n+1}, ordered/random) through iter_recording_ids, iter_recordings_metadata and '
        'find_matching_recording_ids with skip_incomplete on/off run on each cassette. Oracle: reference filter model '
        '(pbt/refmatch.py) over the harness model of what was saved: no duplicates, only ids of that exact category '
        'that match, size = all matches or min(limit, matches), each id fetchable, label sets equal across cassettes '
        'when unlimited, skip-incomplete excludes exactly flag == True. Non-trivial: the store holds >= 2 categories '
        'in prefix relation and the filter accepts >= 1 and rejects >= 1 recording of the looked-up category. '
        'Distinct = distinct history up to that lookup.')
ASSUMPTIONS = ['metadata JSON-native (the S3 content filter reads the metadata object as JSON)',
               'filters restricted to those whose meaning the C14 statement fixes for every stored recording '
               '(others: totality only)', 'limit >= 1 or None', 'no date window (C16)']

CATEGORIES = ['A', 'AB', 'A_B', 'A_', 'B', 'BA']
S3_PREFIXES = ('', 'p', 'pq', 'p/q')
INC = '_tape_recorder_incomplete_recording'
ATOMS = [None, True, False, 0, 1, 2, 1.5, '', 'a', 'ab', 'b', {'k': 1}, [1, 2]]
COMMON = [None, True, 1, 2, 'a', 'ab']
FATOMS = [None, True, False, 0, 1, 2, 1.5, '', 'a', 'ab', 'a*', '?', '[ab]*', {'k': 1}]

atoms = st.one_of(st.sampled_from(COMMON), st.sampled_from(ATOMS))
fatoms = st.sampled_from(FATOMS)
ops = st.builds(lambda o, v: {'operator': o, 'value': v}, st.sampled_from(['=', '<', '<=', '>', '>=']),
                st.sampled_from([0, 1, 2, 1.5, 'a', 'b']))
filt = st.one_of(fatoms, ops, st.lists(st.one_of(fatoms, ops), min_size=1, max_size=2))
metas = st.fixed_dictionaries({}, optional={'x': atoms, 'y': atoms, INC: st.booleans()})
filters = st.dictionaries(st.sampled_from(['x', 'y']), filt, max_size=2)


VIAS = st.sampled_from(['iter', 'iter_meta', 'find_skip', 'find_skip', 'find_noskip'])


class SomeClass(object):
    pass


def prefix_related(cats):
    cats = sorted(set(cats))
    return any(a != b and b.startswith(a) for a in cats for b in cats)


class Interp(object):
    def __init__(self, ctx):
        self.ctx = ctx
        self.zoo = zoo.Zoo(kinds=('memory', 'file', 's3'), s3_prefixes=S3_PREFIXES).__enter__()
        self.model = []     # (category, metadata) by label
        self.ids = [dict() for _ in self.zoo.cassettes]   # per cassette: id -> label
        self.maybe = [set() for _ in self.zoo.cassettes]   # per cassette: ids of saves that were cut short by a fault
        self.history = []
        self._writers = {}

    def writer(self, i, op):
        """The cassette object a save goes through: the one lookups use, or (op['other']) a second object over the same
        directory / bucket prefix, as when a recording service and a playback tool share the storage."""
        cas = self.zoo.cassettes[i]
        if not op.get('other'):
            return cas
        if i not in self._writers:
            self._writers[i] = self.zoo.second_instance(cas)
        return self._writers[i]

    def close(self):
        self.zoo.__exit__(None, None, None)

    def apply(self, op):
        self.history.append(op)
        getattr(self, 'op_' + op['op'])(op)

    def op_save(self, op):
        label = len(self.model)
        self.model.append((op['cat'], dict(op['meta'])))
        for i, _ in enumerate(self.zoo.cassettes):
            cas = self.writer(i, op)
            rec = cas.create_new_recording(op['cat'])
            rec.set_data('k', label)
            md = dict(op['meta'])
            md['label'] = label
            md['cls'] = SomeClass
            rec.add_metadata(md)
            cas.save_recording(rec)
            self.ids[i][rec.id] = label

    def op_resave(self, op):
        """Annotate a stored recording on every cassette: fetch it, change its metadata, save it again under the same
        id. It stays one recording."""
        if not self.model:
            return
        label = op['n'] % len(self.model)
        cat, md = self.model[label]
        md = dict(md)
        md.update(op['meta'])
        self.model[label] = (cat, md)
        for i, _ in enumerate(self.zoo.cassettes):
            cas = self.writer(i, op)
            rid = [r for r, l in self.ids[i].items() if l == label][0]
            rec = cas.get_recording(rid)
            rec.add_metadata(dict(op['meta']))
            cas.save_recording(rec)
        self.resaves = getattr(self, 'resaves', 0) + 1

    def op_save_fault(self, op):
        """A save on the S3 cassettes is cut short by a storage fault after its k-th bucket write (the write was
        applied; the client sees an error or dies). Such a recording was never saved: lookup may list it only if it
        is completely fetchable."""
        from pbt import fakes3
        for i, cas in enumerate(self.zoo.cassettes):
            if self.zoo.kind(cas) != 's3':
                continue
            rec = cas.create_new_recording(op['cat'])
            rec.set_data('k', 'cut-short')
            md = dict(op['meta'])
            md['label'] = -1
            md['cls'] = SomeClass
            rec.add_metadata(md)
            self.zoo.fake.crash_after = op['k']
            self.zoo.fake.crash_kind = op['kind']
            try:
                cas.save_recording(rec)
            except (fakes3.BucketCrash, fakes3.LostResponse):
                pass
            finally:
                self.zoo.fake.crash_after = None
            self.maybe[i].add(rec.id)

    def op_lookup(self, op):
        from playback.tape_recorder import TapeRecorder
        from playback.studio.recordings_lookup import find_matching_recording_ids, RecordingLookupProperties
        cat, flt, limit, rnd, via = op['cat'], op['filter'], op['limit'], op['random'], op['via']
        skip = via == 'find_skip'
        expected, unspecified = set(), False
        in_cat = 0
        for label, (c, md) in enumerate(self.model):
            if c != cat:
                continue
            in_cat += 1
            m = refmatch.match(flt, md)
            if m is UNSPECIFIED:
                unspecified = True
            if m is True and not (skip and md.get(INC) is True):
                expected.add(label)
        label_sets = []
        for i, cas in enumerate(self.zoo.cassettes):
            name = self.zoo.name(cas)
            arg = dict(flt) if flt else None
            try:
                if via == 'iter':
                    got = list(cas.iter_recording_ids(cat, metadata=arg, limit=limit, random_results=rnd))
                elif via == 'iter_meta':
                    mds = list(cas.iter_recordings_metadata(cat, metadata=arg, limit=limit))
                    got = None
                else:
                    got = list(find_matching_recording_ids(
                        TapeRecorder(cas), cat, RecordingLookupProperties(None, metadata=arg, limit=limit,
                                                                          random_sample=rnd, skip_incomplete=skip)))
            except Exception as e:  # pylint: disable=broad-except
                raise Violation('%s: lookup %r raised %s: %s' % (name, op, type(e).__name__, e), 'lookup-raises')
            cut_short_listed = False
            if got is None:
                labels = [m.get('label') for m in mds if m.get('label') != -1]
                cut_short_listed = len(labels) != len(mds)
            else:
                labels = []
                for rid in got:
                    if rid in self.maybe[i]:
                        # a save that was cut short: listing it is only acceptable if it is completely fetchable
                        try:
                            cas.get_recording(rid).get_data('k')
                            cas.get_recording_metadata(rid)
                        except Exception as e:  # pylint: disable=broad-except
                            raise Violation('%s: lookup %r lists %r, a recording whose save was cut short by a storage '
                                            'fault, and it is not fetchable: %s %s' % (name, op, rid, type(e).__name__, e),
                                            'not-fetchable')
                        cut_short_listed = True
                        continue
                    if rid not in self.ids[i]:
                        raise Violation('%s: lookup %r returned %r which is not an id saved in this cassette' % (
                            name, op, rid), 'foreign-id')
                    labels.append(self.ids[i][rid])
                    try:
                        fetched = cas.get_recording(rid)
                        md = cas.get_recording_metadata(rid)
                    except Exception as e:  # pylint: disable=broad-except
                        raise Violation('%s: listed id %r is not fetchable: %s %s' % (name, rid, type(e).__name__, e),
                                        'not-fetchable')
                    if fetched.get_metadata().get('label') != labels[-1] or md.get('label') != labels[-1]:
                        raise Violation('%s: listed id %r fetches another recording' % (name, rid), 'not-fetchable')
            if len(set(labels)) != len(labels):
                raise Violation('%s: lookup %r returned duplicates: %r' % (name, op, labels), 'duplicates')
            wrong_cat = [l for l in labels if self.model[l][0] != cat]
            if wrong_cat:
                raise Violation('%s: lookup for category %r returned recordings of categories %r' % (
                    name, cat, sorted(set(self.model[l][0] for l in wrong_cat))), 'category')
            if not unspecified:
                extra = set(labels) - expected
                if extra:
                    raise Violation('%s: lookup %r returned non-matching recordings %r (model %r)' % (
                        name, op, [self.model[l] for l in sorted(extra)], sorted(expected)), 'non-matching')
                want_n = len(expected) if limit is None else min(limit, len(expected))
                if cut_short_listed and limit is not None:
                    pass    # a (fetchable) cut-short recording may take one of the limited places
                elif len(labels) != want_n:
                    raise Violation('%s: lookup %r returned %d recordings, expected %d (matching labels %r, got %r)' % (
                        name, op, len(labels), want_n, sorted(expected), sorted(labels)), 'size')
                if limit is None:
                    label_sets.append((name, set(labels)))
        for name, s in label_sets[1:]:
            if s != label_sets[0][1]:
                raise Violation('cassettes disagree on lookup %r: %s -> %r, %s -> %r' % (
                    op, label_sets[0][0], sorted(label_sets[0][1]), name, sorted(s)), 'cross-cassette')
        cats = [c for c, _ in self.model]
        nt = prefix_related(cats) and 0 < len(expected) < in_cat and not unspecified
        self.ctx.case(self.history, nt, classes=(
            'via:%s' % via, 'limit:%s' % ('none' if limit is None else 'set'), 'random' if rnd else 'ordered',
            'after-resave' if getattr(self, 'resaves', 0) else 'no-resave',
            'after-write-through-second-instance' if self._writers else 'single-instance',
            'unspecified' if unspecified else ('matches:%s' % ('none' if not expected else
                                                                  'all' if len(expected) == in_cat else 'some'))))


def make_machine(ctx):
    class Machine(HistoryMachine):
        def make_interp(self):
            return Interp(ctx)

        @rule(cat=st.sampled_from(CATEGORIES), meta=metas, other=st.sampled_from([False, False, True]))
        def save(self, cat, meta, other):
            self.step({'op': 'save', 'cat': cat, 'meta': meta, 'other': other})

        @rule(cat=st.sampled_from(CATEGORIES[:3]), meta=metas, k=st.sampled_from([1, 2]),
              kind=st.sampled_from(['crash', 'lost']))
        def save_fault(self, cat, meta, k, kind):
            self.step({'op': 'save_fault', 'cat': cat, 'meta': meta, 'k': k, 'kind': kind})

        @precondition(lambda self: self.interp.model)
        @rule(n=st.integers(0, 40), meta=metas, other=st.booleans())
        def resave(self, n, meta, other):
            self.step({'op': 'resave', 'n': n, 'meta': meta, 'other': other})

        @rule(cat=st.sampled_from(CATEGORIES[:3]), meta=metas)
        def save_related(self, cat, meta):
            self.step({'op': 'save', 'cat': cat, 'meta': meta})

        @rule(cat=st.sampled_from(CATEGORIES), flt=filters, limit=st.one_of(st.none(), st.integers(1, 6)),
              rnd=st.booleans(), via=VIAS)
        def lookup(self, cat, flt, limit, rnd, via):
            self.step({'op': 'lookup', 'cat': cat, 'filter': flt, 'limit': limit, 'random': rnd, 'via': via})

        @precondition(lambda self: self.interp.model)
        @rule(n=st.integers(0, 40), keys=st.sets(st.sampled_from(['x', 'y']), max_size=2), shape=st.integers(0, 3),
              other=fatoms, limit=st.one_of(st.none(), st.integers(1, 6)), rnd=st.booleans(), via=VIAS)
        def lookup_like_existing(self, n, keys, shape, other, limit, rnd, via):
            """Filter derived from a stored recording so that it accepts at least that one."""
            cat, md = self.interp.model[n % len(self.interp.model)]
            flt = {}
            for k in sorted(keys):
                v = md.get(k)
                if shape == 0 or isinstance(v, list):
                    flt[k] = [v, other] if not isinstance(v, list) else v
                elif shape == 1 and isinstance(v, (int, float, str)) and not isinstance(v, bool) and v != '':
                    flt[k] = {'operator': '>=', 'value': v}
                elif shape == 2:
                    flt[k] = [other, v]
                else:
                    flt[k] = v
            self.step({'op': 'lookup', 'cat': cat, 'filter': flt, 'limit': limit, 'random': rnd, 'via': via})

    return Machine


def replay(ctx, case):
    replay_history(Interp(ctx), case)


def run(ctx):
    run_machine(ctx, make_machine(ctx), ctx.pick(150, 800), ctx.pick(25, 40), label='machine')
