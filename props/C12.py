"""C12 - asynchronous recording stores exactly what synchronous recording would."""
import copy

from hypothesis import strategies as st

from pbt import detsched as DS
from pbt.runner import Violation, hyp_search, guarded

LEVEL = 'exploration'
SHARDS = {'quick': 8, 'thorough': 16}
RULE = ('Workloads (1-3 producer threads, each creating 1-2 recordings with 0-4 data writes, 0-2 metadata writes and a '
        'save, optionally one failing wrapped operation at any position) run against the real '
        'AsyncRecordOnlyTapeCassette under a harness-owned deterministic scheduler: the names Lock/Event/Thread in the '
        'cassette module are rebound to cooperative versions, switch points are every line (quick) / every bytecode '
        '(part of thorough) of the cassette module, every lock/event/thread operation and the entry of every wrapped '
        'storage call; schedules are PCT-style (priority permutation + change points), seeded random walks, and in the '
        'thorough tier an exhaustive DFS of all schedules with <= 2 preemptions for the smallest workloads; a timer '
        '(flush interval) may fire whenever another thread has stepped. close() is issued after joining the producers. '
        'Optionally the producers are split over two asynchronous cassettes used one after the other in the same '
        'process, over the same or over separate wrapped storages. '
        'Oracle: wrapped cassette content at the moment close() returns == a synchronous twin run of the workload; per '
        'recording the operations that reached the wrapped recording == the requested sequence (exactly once, in '
        'order); a failing operation removes only itself; nothing reaches the storage after close() returned; no '
        'producer is ever blocked on the cassette lock while its holder is inside a storage call; no deadlock. '
        'Non-trivial: schedule with >= 1 preemption or >= 2 timer firings. Distinct = distinct (workload, executed '
        'schedule).')
ASSUMPTIONS = ['switch points exist only in Python code of the watched module and the cooperative primitives; C-level '
               'operations (list.append) are atomic as under the GIL', 'join(timeout) expiry is not explored (wrapped '
               'storage is instantaneous in the harness)']

MODNAME = 'playback.tape_cassettes.asynchronous.async_record_only_tape_cassette'
WATCH = ('async_record_only_tape_cassette.py',)


from playback.tape_cassettes.in_memory.in_memory_tape_cassette import InMemoryTapeCassette  # noqa: E402
from playback.recordings.memory.memory_recording import MemoryRecording  # noqa: E402

OWNERS = {}


class LogRec(MemoryRecording):
    """Wrapped recording that logs every storage call (module level so that the serializer can resolve it)."""

    def __init__(self, _id=None, owner_id=None):
        MemoryRecording.__init__(self, _id)
        self.owner_id = owner_id

    def _set_data(self, key, value):
        OWNERS[self.owner_id].storage_call(('set', self.id, key, value))
        MemoryRecording._set_data(self, key, value)

    def _add_metadata(self, metadata):
        OWNERS[self.owner_id].storage_call(('meta', self.id, dict(metadata)))
        MemoryRecording._add_metadata(self, metadata)


class LogCassette(InMemoryTapeCassette):
    def __init__(self, fail=()):
        InMemoryTapeCassette.__init__(self)
        self.log = []
        self.counters = {}
        self.fail = set(fail)
        self.closed = False
        self.after_close = []
        OWNERS[id(self)] = self

    def storage_call(self, entry):
        s = DS.current()
        st_ = s.me() if s is not None else None
        if st_ is not None:
            st_.in_storage = True
            try:
                s.switch_point('storage')
            finally:
                st_.in_storage = False
        if self.closed:
            self.after_close.append(entry)
        self.log.append(entry)
        key = entry[:3] if entry[0] == 'set' else entry[:2]
        if key in self.fail:
            raise IOError('injected storage failure %r' % (key,))

    def create_new_recording(self, category):
        self.counters[category] = self.counters.get(category, 0) + 1
        return LogRec('%s/%d' % (category, self.counters[category]), id(self))

    def _save_recording(self, recording):
        self.storage_call(('save', recording.id))
        InMemoryTapeCassette._save_recording(self, recording)

    def close(self):
        self.closed = True

    def content(self):
        out = {}
        for rid in self.get_all_recording_ids():
            r = self.get_recording(rid)
            out[rid] = (dict((k, r.get_data(k)) for k in r.get_all_keys()), r.get_metadata())
        return out


def _classes():
    return LogCassette


def fail_set(workload):
    out = set()
    for p, recs in enumerate(workload['producers']):
        for r, rec in enumerate(recs):
            rid = 'P%d/%d' % (p, r + 1)
            f = rec.get('fail')
            if f is None:
                continue
            if f == 'save':
                out.add(('save', rid))
            else:
                op = rec['ops'][f % len(rec['ops'])] if rec['ops'] else None
                if op is None:
                    out.add(('save', rid))
                elif op['op'] == 'set':
                    out.add(('set', rid, op['k']))
                else:
                    out.add(('save', rid))
    return out


def requested_for(p, recs):
    req = {}
    for r, rec in enumerate(recs):
        rid = 'P%d/%d' % (p, r + 1)
        seq = []
        for op in rec['ops']:
            if op['op'] == 'set':
                seq.append(('set', rid, op['k'], op['v']))
            else:
                seq.append(('meta', rid, dict(op['m'])))
        if rec.get('end') != 'abort':
            seq.append(('save', rid))
        req[rid] = seq
    return req


def run_producer(cas, p, recs, tolerate):
    for rec in recs:
        r = cas.create_new_recording('P%d' % p)
        for op in rec['ops']:
            try:
                if op['op'] == 'set':
                    r.set_data(op['k'], op['v'])
                else:
                    r.add_metadata(dict(op['m']))
            except IOError:
                if not tolerate:
                    raise
        if rec.get('end') == 'abort':
            # the recorder aborts every recording it does not keep (sampling, discard): nothing of it is stored, and
            # the recordings requested before and after it are stored all the same
            cas.abort_recording(r)
            continue
        try:
            cas.save_recording(r)
        except IOError:
            if not tolerate:
                raise


def sessions_of(workload):
    """[(wrapped index, [producer indices])]: one async cassette per session, run one after the other in the same
    process. 'second' (optional) = {'from': first producer of the second session, 'share': same wrapped storage?}."""
    n = len(workload['producers'])
    sec = workload.get('second')
    if not sec or not 0 < sec['from'] < n:
        return [(0, list(range(n)))]
    return [(0, list(range(sec['from']))), (0 if sec.get('share') else 1, list(range(sec['from'], n)))]


def twin_content(workload):
    """Content per wrapped storage of a synchronous run."""
    LogCassette = _classes()
    DS.install(None)
    OWNERS.clear()
    out = {}
    for w, plist in sessions_of(workload):
        if w not in out:
            out[w] = LogCassette(fail_set(workload))
        for p in plist:
            run_producer(out[w], p, workload['producers'][p], tolerate=True)
    return dict((w, c.content()) for w, c in out.items())


def make_chooser(sched):
    if sched['mode'] == 'pct':
        return DS.pct_chooser(sched['prio'], sched['changes'])
    if sched['mode'] == 'random':
        return DS.random_chooser(sched['seed'], sched.get('p', 0.3))
    return DS.replay_chooser(sched['trace'])


def run_schedule(ctx, case, chooser=None):
    """Returns the scheduler after a complete, checked run."""
    import importlib
    A = importlib.import_module(MODNAME)
    workload = case['workload']
    want = twin_content(workload)
    LogCassette = _classes()
    sched = DS.Scheduler(WATCH, opcode=bool(case.get('opcode')), max_steps=case.get('max_steps', 60000))
    DS.install(sched)
    # take over the threading primitives of the cassette module, however it imports them: the names Lock / RLock /
    # Event / Thread in its namespace and, if it does `import threading`, that name (a proxy that delegates the rest)
    import threading as _real_threading
    coop = {'Lock': DS.CoLock, 'RLock': DS.CoRLock, 'Event': DS.CoEvent, 'Thread': DS.CoThread}
    saved = {}
    for name_, repl in coop.items():
        if getattr(A, name_, None) is getattr(_real_threading, name_):
            saved[name_] = getattr(A, name_)
            setattr(A, name_, repl)
    if getattr(A, 'threading', None) is _real_threading:
        class _ThreadingProxy(object):
            def __getattr__(self, item):
                return coop.get(item) or getattr(_real_threading, item)
        saved['threading'] = A.threading
        A.threading = _ThreadingProxy()
    obs = {}
    try:
        OWNERS.clear()
        sessions = sessions_of(workload)
        wrappeds = {}
        for w, _ in sessions:
            if w not in wrappeds:
                wrappeds[w] = LogCassette(fail_set(workload))
        cassettes = [A.AsyncRecordOnlyTapeCassette(wrappeds[w], flush_interval=0.1) for w, _ in sessions]
        same_instance = len(sessions) == 2 and bool((workload.get('second') or {}).get('same_instance'))
        if same_instance:
            # the second session starts the SAME cassette object again after its close(): either that is refused loudly
            # (start() raises) or the second session's recordings are stored like any others
            cassettes[1] = cassettes[0]
        # locks that live on the cassette CLASSES (shared by every instance) are taken over as well
        class_locks = []
        for obj in list(cassettes) + list(wrappeds.values()):
            for klass in type(obj).__mro__:
                for name_, val_ in list(vars(klass).items()):
                    tn = type(val_).__name__
                    if tn in ('RLock', '_RLock', 'lock') and not isinstance(val_, (DS.CoLock, DS.CoRLock)):
                        class_locks.append((klass, name_, val_))
                        setattr(klass, name_, DS.CoRLock() if 'RLock' in tn else DS.CoLock())
        # the scheduler must own every primitive of the cassette; if the module stops using the names Lock / Event /
        # Thread the harness can no longer control it: that is a harness error, never a violation
        for cas in cassettes:
            for name, val in vars(cas).items():
                mod = type(val).__module__
                if mod in ('threading', '_thread') or type(val).__name__ in ('lock', 'RLock', '_RLock'):
                    from pbt.runner import HarnessError
                    raise HarnessError('cannot take control of AsyncRecordOnlyTapeCassette.%s (%r)' % (name, type(val)))

        def invariant(s):
            for st_ in s.ts.values():
                if st_.status == 'lock' and st_.wait_obj._owner is not None:
                    owner = s.ts.get(st_.wait_obj._owner)
                    if owner is not None and owner.in_storage:
                        raise Violation('thread %s waits for the cassette lock while %s holds it inside a wrapped storage '
                                        'call: callers wait for the storage' % (st_.name, owner.name), 'callers-wait')

        sched.invariant = invariant

        def main():
            for i, (w, plist) in enumerate(sessions):
                cas, wrapped = cassettes[i], wrappeds[w]
                wrapped.closed = False    # a shared storage is opened again by the next session
                if i == 1 and same_instance:
                    try:
                        cas.start()
                    except RuntimeError:
                        obs['restart_refused'] = True
                        obs[i] = {'log_at_close': len(wrapped.log), 'wrapped_closed': True,
                                  'at_close': wrapped.content()}
                        continue
                else:
                    cas.start()
                producers = []
                for p in plist:
                    t = DS.CoThread(target=run_producer, args=(cas, p, workload['producers'][p], False))
                    t.start()
                    producers.append(t)
                for t in producers:
                    t.join()
                cas.close()
                obs[i] = {'log_at_close': len(wrapped.log), 'wrapped_closed': wrapped.closed}
                if i == len(sessions) - 1 or sessions[i + 1][0] != w:
                    obs[i]['at_close'] = wrapped.content()   # last session on this storage

        sched.spawn('main', main)
        try:
            sched.run(chooser or make_chooser(case['sched']))
        except DS.Deadlock as e:
            raise Violation('deadlock: %s\nschedule tail: %r' % (e, sched.points[-12:]), 'deadlock')
        except DS.StepLimit:
            raise Violation('no termination within %d steps (livelock?)' % sched.max_steps, 'termination')
        for st_ in sched.ts.values():
            if st_.exc is not None:
                if isinstance(st_.exc, Violation):
                    raise st_.exc
                raise Violation('thread %s died with %s: %s' % (st_.name, type(st_.exc).__name__, st_.exc),
                                'thread-exception')
        if len(sessions) - 1 not in obs:
            raise Violation('close() never returned', 'termination')
        if obs.get('restart_refused'):
            # the refused session stored nothing: the expectation is the first session alone
            first_only = dict(workload, producers=workload['producers'][:workload['second']['from']])
            first_only.pop('second')
            want = {0: twin_content(first_only)[0]}
            sessions = [sessions[0], (sessions[1][0], [])]
        for i, (w, plist) in enumerate(sessions):
            wrapped = wrappeds[w]
            last_on_storage = 'at_close' in obs[i]
            if last_on_storage and obs[i]['at_close'] != want[w]:
                got_c, want_c = obs[i]['at_close'], want[w]
                missing = sorted(set(want_c) - set(got_c))
                extra = sorted(set(got_c) - set(want_c))
                diff = [k for k in want_c if k in got_c and want_c[k] != got_c[k]]
                raise Violation('wrapped cassette at the moment close() returned differs from the synchronous twin: '
                                'missing recordings %r, extra %r, different %r (%r vs %r)' % (
                                    missing, extra, diff, [got_c.get(k) for k in diff[:2]],
                                    [want_c.get(k) for k in diff[:2]]), 'content-at-close')
            if last_on_storage and len(wrapped.log) != obs[i]['log_at_close']:
                raise Violation('storage operations %r reached the wrapped cassette after close() had returned' % (
                    wrapped.log[obs[i]['log_at_close']:],), 'after-close')
            if not obs[i]['wrapped_closed']:
                raise Violation('wrapped cassette was not closed by close()', 'close')
        for wrapped in wrappeds.values():
            if wrapped.after_close:
                raise Violation('storage operations %r were applied after the wrapped cassette had been closed' % (
                    wrapped.after_close[:3],), 'after-close')
        aborted_ids = set('P%d/%d' % (p, r + 1) for p, recs in enumerate(workload['producers'])
                          for r, rec in enumerate(recs) if rec.get('end') == 'abort')
        for w, plist in sessions:
            for p in plist:
                for rid, seq in requested_for(p, workload['producers'][p]).items():
                    for w2, wrapped in wrappeds.items():
                        got = [e for e in wrapped.log if e[1] == rid]
                        aborted = rid in aborted_ids
                        if aborted and w2 == w and got == seq[:len(got)]:
                            continue      # writes of a recording that is never saved may be dropped
                        if got != (seq if w2 == w else []):
                            raise Violation('operations reaching wrapped recording %s on storage %d: %r, requested %r' % (
                                rid, w2, got, seq if w2 == w else []), 'order-exactly-once')
    finally:
        for klass, name_, val_ in locals().get('class_locks', []):
            setattr(klass, name_, val_)
        for name_, val_ in saved.items():
            setattr(A, name_, val_)
        DS.install(None)
    return sched


def check_case(ctx, case):
    try:
        sched = run_schedule(ctx, case)
    except Violation as v:
        raise
    nt = sched.preemptions >= 1 or sched.timer_firings >= 2
    ctx.case({'workload': case['workload'], 'trace': ''.join(n[-1] for n in sched.trace)}, nt, classes=(
        'mode:' + case['sched']['mode'], 'producers:%d' % len(case['workload']['producers']),
        'preemptions:%s' % min(sched.preemptions, 5), 'timer-firings:%s' % min(sched.timer_firings, 5),
        'failing-op' if fail_set(case['workload']) else 'no-failing-op', 'opcode' if case.get('opcode') else 'line',
        'sessions:%d' % len(sessions_of(case['workload'])),
        'same-cassette-started-again' if (case['workload'].get('second') or {}).get('same_instance') and len(
            sessions_of(case['workload'])) == 2 else 'fresh-cassette-per-session',
        'aborted-recording' if any(r.get('end') == 'abort' for recs in case['workload']['producers'] for r in recs)
        else 'all-saved'))
    ctx.count('steps', sched.steps)


ops = st.one_of(
    st.fixed_dictionaries({'op': st.just('set'), 'k': st.sampled_from(['k0', 'k1', 'k2']), 'v': st.integers(0, 9)}),
    st.fixed_dictionaries({'op': st.just('set'), 'k': st.sampled_from(['k0', 'k1', 'k2']), 'v': st.integers(0, 9)}),
    st.fixed_dictionaries({'op': st.just('meta'), 'm': st.dictionaries(st.sampled_from(['m', 'n']), st.integers(0, 3),
                                                                        min_size=1, max_size=2)}))
recordings = st.fixed_dictionaries({'ops': st.lists(ops, max_size=5),
                                    'fail': st.sampled_from([None, None, None, 0, 1, 2, 'save']),
                                    'end': st.sampled_from(['save', 'save', 'save', 'abort'])})
workloads = st.fixed_dictionaries(
    {'producers': st.lists(st.lists(recordings, min_size=1, max_size=2), min_size=1, max_size=3)},
    optional={'second': st.one_of(
        st.fixed_dictionaries({'from': st.integers(1, 2), 'share': st.booleans()}),
        st.fixed_dictionaries({'from': st.integers(1, 2), 'share': st.just(True), 'same_instance': st.just(True)}))})
scheds = st.one_of(
    st.fixed_dictionaries({'mode': st.just('pct'), 'prio': st.permutations(list(range(1, 7))),
                           'changes': st.lists(st.integers(1, 500), max_size=4)}),
    st.fixed_dictionaries({'mode': st.just('random'), 'seed': st.integers(0, 10 ** 6),
                           'p': st.sampled_from([0.05, 0.3, 0.6])}))


# ---- exhaustive DFS with a preemption bound (thorough)

def dfs(ctx, workload, bound, shard=0, nshards=1, free_bound=3):
    """Every schedule with <= bound preemptions (and <= free_bound non-default choices at blocking points)."""
    case = {'workload': workload, 'sched': {'mode': 'dfs'}}

    def on_run(sched):
        ctx.case({'workload': workload, 'trace': ''.join(n[-1] for n in sched.trace)},
                 sched.preemptions >= 1 or sched.timer_firings >= 2,
                 classes=('mode:dfs', 'preemptions:%s' % min(sched.preemptions, 5)))

    return DS.dfs_explore(lambda chooser: run_schedule(ctx, case, chooser=chooser), bound, shard, nshards,
                          free_bound=free_bound, max_runs=ctx.pick(3000, 400000), on_run=on_run)


SMALL = {'producers': [[{'ops': [{'op': 'set', 'k': 'k0', 'v': 1}, {'op': 'set', 'k': 'k1', 'v': 2}], 'fail': None}],
                       [{'ops': [{'op': 'set', 'k': 'k0', 'v': 3}, {'op': 'meta', 'm': {'m': 1}}], 'fail': None}]]}
TINY = {'producers': [[{'ops': [{'op': 'set', 'k': 'k0', 'v': 1}], 'fail': None}]]}


def replay(ctx, case):
    run_schedule(ctx, case)


def run(ctx):
    def body(case):
        try:
            check_case(ctx, case)
        except Violation as v:
            raise

    cases = st.fixed_dictionaries({'workload': workloads, 'sched': scheds})
    ok = hyp_search(ctx, cases, body, ctx.pick(150, 1200), label='schedules')
    if ok and not ctx.quick:
        opc = st.fixed_dictionaries({'workload': workloads, 'sched': scheds, 'opcode': st.just(True),
                                     'max_steps': st.just(400000)})
        ok = hyp_search(ctx, opc, body, 40, label='opcode')
    if ok:
        # bounded-preemption DFS: tiny workload / 1 preemption in quick; tiny / 2 and small / 1 in thorough
        plans = [('tiny', TINY, 1)] if ctx.quick else [('tiny', TINY, 2), ('small', SMALL, 1)]
        ctx.exhaustive = True
        scopes = []
        for name, wl, bound in plans:
            case = {'workload': wl, 'sched': {'mode': 'dfs', 'bound': bound}}

            def go(c):
                runs, complete = dfs(ctx, wl, bound, ctx.shard, ctx.nshards)
                ctx.extra['dfs_runs_%s_%d' % (name, bound)] = runs
                ctx.exhaustive = ctx.exhaustive and complete
            if not guarded(ctx, case, go):
                ctx.exhaustive = False
                break
            scopes.append('%s workload with <= %d preemptions' % (name, bound))
        ctx.extra['exhaustive_scope'] = ('every schedule (line granularity, <= 3 non-default choices where the running '
                                         'thread cannot continue) of: ' + '; '.join(scopes) +
                                         '. The PCT / random-walk part is sampled.')
