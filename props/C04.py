"""C04 - recording is transparent to the recorded service (sequential fault enumeration + threaded schedules)."""
import random

from hypothesis import strategies as st

from pbt import progsim as PS, values as V, faultrun as FR
from pbt.runner import Violation, hyp_search

LEVEL = 'fault_enumeration'
SHARDS = {'quick': 8, 'thorough': 16}
RULE = ('(a) Hypothesis generates a sequential program (<= 6 steps, handlers/resolvers/capture subsets/static/property/'
        'class-level) and recording parameters; the harness then enumerates EVERY single placement of every applicable '
        'tolerated fault at every step (array-like value or argument whose comparisons have no truth value, key cannot be built, input/output data handler raises, unserialisable value / '
        'output argument (save and copy-on-interception fail), metadata extractor raises or returns junk, cassette save '
        'raises, discard / forced sampling / ordinary exception / interrupt from the operation or from inside an '
        'intercepted body) plus a seeded sample of fault pairs (all pairs for programs <= 3 steps in the thorough tier), '
        'each with recording enabled (every fourth placement through the asynchronous wrapper cassette); and recording disabled / class skipped for a subset. (b) threaded programs: 2-3 '
        'workers inside one operation, one of them provoking a discard while the others are inside intercepted bodies '
        '(rendezvous). Oracle: differential against the undecorated twin built from the same description: same '
        'operation outcome, per call site the very object / exception object the wrapped body produced (identity) and '
        'the twin\'s value, identical body journal (each body exactly once, same order); with recording disabled or '
        'the class skipped the spy cassette sees no call and the store is unchanged. Non-trivial: a fault placed after '
        '>= 1 successful capture, or a fault pair, or a discard with interceptions in flight on other threads. '
        'Distinct = distinct (program, fault placement, configuration).')
ASSUMPTIONS = ['operations are not nested or run concurrently on one recorder (start_recording asserts it)',
               'thread interleavings in (b) are OS-given around a rendezvous that puts all workers inside bodies; '
               'deterministic schedule exploration of the recorder is a limit of this check (see DESIGN.md)']

PARAMS = [None, None, {'sampling_rate': 0}, {'sampling_rate': 1}, {'copy_data_on_intercepion': True},
          {'sampling_rate': 0, 'ignore_enforced_sampling': True}, {'sampling_rate': 0.5}]


def same(a, b):
    return V.deep_same(a, b)


def compare(fr, case):
    """Differential oracle between the decorated run and the twin."""
    t, r = fr.twin_outcome, fr.outcome
    what = 'faults=%r params=%r enabled=%r' % (case['faults'], case.get('params'), case['enabled'])
    if t[0] != r[0]:
        raise Violation('operation outcome differs from the undecorated code: twin %r, decorated %r (%s)' % (
            t[:2], r[:2] if r[0] != 'ret' else r, what), 'operation-outcome')
    if t[0] == 'ret':
        if not same(t[1], r[1]):
            raise Violation('operation result differs: twin %r, decorated %r (%s)' % (t[1], r[1], what),
                            'operation-outcome')
    elif t[1] != r[1] or str(t[2]) != str(r[2]):
        raise Violation('operation raised %s(%s), the undecorated code raises %s(%s) (%s)' % (
            r[1], r[2], t[1], t[2], what), 'operation-outcome')
    tb = [j for j in fr.Wt.journal if j[0] == 'body']
    rb = [j for j in fr.W.journal if j[0] == 'body']
    if sorted(tb) != sorted(rb) or (not case.get('threaded') and tb != rb):
        raise Violation('wrapped bodies executed differently: undecorated %r, decorated %r (%s)' % (tb, rb, what),
                        'body-journal')
    if set(fr.Wt.sites) != set(fr.W.sites):
        raise Violation('call sites differ: %r vs %r (%s)' % (sorted(fr.Wt.sites), sorted(fr.W.sites), what), 'sites')
    for sid, tv in fr.Wt.sites.items():
        rv = fr.W.sites[sid]
        if tv[0] != rv[0]:
            raise Violation('call %s: undecorated %s %r, decorated %s %r (%s)' % (sid, tv[0], tv[1], rv[0], rv[1],
                                                                                  what), 'call-outcome')
        produced = fr.W.body_out.get(sid)
        if produced is not None and produced[1] is not rv[1]:
            raise Violation('call %s did not hand its caller the object the wrapped body produced: body %r, caller got '
                            '%r (%s)' % (sid, produced[1], rv[1], what), 'identity')
        if tv[0] == 'v' and not same(tv[1], rv[1]):
            raise Violation('call %s returned %r, undecorated code returns %r (%s)' % (sid, rv[1], tv[1], what),
                            'call-outcome')
        if tv[0] == 'e' and (type(tv[1]) is not type(rv[1]) or str(tv[1]) != str(rv[1])):
            raise Violation('call %s raised %r, undecorated code raises %r (%s)' % (sid, rv[1], tv[1], what),
                            'call-outcome')
    passthrough = not case['enabled'] or (case.get('params') or {}).get('skipped')
    if passthrough:
        if fr.spy_log:
            raise Violation('cassette touched although recording is %s: %r' % (
                'disabled' if not case['enabled'] else 'skipped for the class', fr.spy_log), 'pass-through')
        if fr.before != fr.after:
            raise Violation('store changed although recording is disabled/skipped', 'pass-through')


def run_case(ctx, case):
    prog, flags = FR.apply_faults(case['prog'], case['faults'])
    if case.get('params'):
        prog['params'] = case['params']
    fr = FR.FaultRun(prog, flags, enabled=case['enabled'], seed=7, cassette=case.get('cassette', 'memory'))
    try:
        compare(fr, case)
    finally:
        fr.close()


def nontrivial(prog, faults):
    if len(faults) >= 2:
        return True
    for f in faults:
        if f.get('at', 0) >= 1 and any(s['t'] in ('in', 'out') for s in prog['steps'][:f['at']]):
            return True
    return False


def enumerate_case(ctx, base):
    """base = {'prog', 'params', 'pair_seed'}; raises Violation carrying the concrete failing sub-case."""
    prog = base['prog']
    faults = FR.applicable_faults(prog, extra=('vector', 'extractor_discards'))
    placements = [[]] + [[f] for f in faults]
    rnd = random.Random(base['pair_seed'])
    pairs = [[a, b] for i, a in enumerate(faults) for b in faults[i + 1:] if FR.compatible(a, b)]
    npairs = ctx.pick(25, 120)
    if not ctx.quick and len(prog['steps']) <= 3:
        pass
    elif len(pairs) > npairs:
        pairs = rnd.sample(pairs, npairs)
    placements += pairs
    for n, fl in enumerate(placements):
        variants = [(True, base['params'])]
        if n % 5 == 0:
            variants.append((False, base['params']))
        if n % 7 == 0:
            variants.append((True, {'skipped': True}))
        for enabled, params in variants:
            case = {'prog': prog, 'faults': fl, 'enabled': enabled, 'params': params}
            if n % 4 == 1 and not any(f['kind'] == 'save_fails' for f in fl):
                case['cassette'] = 'async'      # every fourth placement records through the asynchronous wrapper
            ctx.case(case, nontrivial(prog, fl), classes=tuple('fault:' + f['kind'] for f in fl) + (
                'faults:%d' % len(fl), 'enabled' if enabled else 'disabled', 'cassette:' + case.get('cassette', 'memory')) + (
                    ('skipped',) if params and params.get('skipped') else ()))
            try:
                run_case(ctx, case)
            except Violation as v:
                v.case = case
                raise


# ---- (b) threaded: a discard while interceptions are in flight on other threads

@st.composite
def threaded_cases(draw):
    vals = st.integers(0, 3)
    ins, outs = PS.fix_decls(draw(st.lists(PS.input_decls(), min_size=1, max_size=2)),
                             draw(st.lists(PS.output_decls(), min_size=1, max_size=3)))
    nw = draw(st.integers(2, 3))
    workers = []
    for k in range(nw):
        ws = draw(PS.step_lists(ins, outs, vals, 3, ('ret', 'ret', 'raise'), ('ret', 'ret', 'raise'), threads=False,
                                depth=1, worker=(k, nw)))
        if not ws:
            ws = [draw(PS.in_step(ins, vals, ('ret',)))]
        ws[0]['sync'] = True
        workers.append(ws)
    # one worker provokes a discard at its synchronised call
    victim = draw(st.integers(0, nw - 1))
    how = draw(st.sampled_from(['body_discard', 'body_discard_raise', 'unencodable_arg', 'hfail']))
    s = workers[victim][0]
    if how == 'body_discard':
        s['beh'] = 'discard'
    elif how == 'body_discard_raise':
        s['beh'] = 'discard_raise'
    elif how == 'unencodable_arg' and s['t'] == 'in' and ins[s['i']]['kind'] != 'property' and \
            ins[s['i']].get('capture', 'all') in ('all', 'pos1', 'pos1_name_b'):
        s['a'] = FR.UNENC
    elif how == 'hfail' and (ins if s['t'] == 'in' else outs)[s['i']].get('handler') == 'wrap':
        s['hfail'] = True
    else:
        s['beh'] = 'discard'
        how = 'body_discard'
    prog = PS.assign_sids(dict(klass='instance', ins=ins, outs=outs, steps=[dict(t='threads', workers=workers)],
                               ending='return', result=None, extractor='none'))
    return {'prog': prog, 'faults': [], 'enabled': True, 'params': draw(st.sampled_from([None, {'copy_data_on_intercepion': True}])),
            'threaded': True, 'how': how}


def run_threaded(ctx, case):
    prog = PS.assign_sids(case['prog'])
    fr = FR.FaultRun(prog, {}, enabled=True, seed=7)
    try:
        met = any(j[0] == 'rendezvous' for j in fr.W.journal)
        ctx.case(case, met, classes=('threaded:' + case['how'], 'threaded:rendezvous' if met else 'threaded:no-overlap'))
        compare(fr, case)
    finally:
        fr.close()


# ---- (c) the same threaded programs under the deterministic scheduler (line granularity in tape_recorder.py)

def run_scheduled(ctx, case, extra_check=None, chooser=None, account=True, after=None):
    from pbt import detsched as DS
    from playback.tape_recorder import TapeRecorder
    from pbt import zoo
    prog = PS.assign_sids(case['prog'])
    # twin (plain threads, no scheduler: the twin has no shared state)
    Wt = PS.World('LIVE')
    Wt.no_barrier = True
    twin_cls = PS.build_class(prog, None, Wt, decorated=False)
    twin_outcome = PS.execute(twin_cls, prog)
    for th in Wt.detached:
        th.join()
    PS.forget_class(twin_cls)
    sched = DS.Scheduler(('tape_recorder.py',), max_steps=40000)
    DS.install(sched)
    holder = {}
    z = zoo.Zoo(kinds=('memory',), spy=True).__enter__()
    try:
        cas = z.cassettes[0]
        rec = TapeRecorder(cas, random_seed=7)
        # a real lock held across a switch point would block the baton holder: make any lock-like attribute of the
        # recorder cooperative (harness-side; lock semantics are preserved)
        for name, val in list(vars(rec).items()):
            tn = type(val).__name__
            if tn in ('RLock', '_RLock'):
                setattr(rec, name, DS.CoRLock())
            elif tn == 'lock':
                setattr(rec, name, DS.CoLock())
        rec.enable_recording()
        W = PS.World('LIVE')
        W.no_barrier = True
        W.thread_factory = lambda target, args: DS.CoThread(target=target, args=args)
        if case.get('params'):
            prog['params'] = case['params']
        cls = PS.build_class(prog, rec, W)

        def main():
            holder['outcome'] = PS.execute(cls, prog)

        sched.spawn('main', main)
        try:
            sched.run(chooser if chooser is not None else
                      DS.replay_chooser(case['sched']['trace']) if case['sched']['mode'] == 'trace' else
                      DS.pct_chooser(case['sched']['prio'], case['sched']['changes']) if case['sched']['mode'] == 'pct'
                      else DS.random_chooser(case['sched']['seed'], case['sched'].get('p', 0.3)))
        except DS.Deadlock as e:
            raise Violation('deadlock under schedule: %s' % (e,), 'deadlock')
        for st_ in sched.ts.values():
            if st_.exc is not None:
                raise Violation('thread %s died with %s: %s' % (st_.name, type(st_.exc).__name__, st_.exc),
                                'thread-exception')

        class FR_(object):
            pass
        fr = FR_()
        fr.twin_outcome, fr.outcome, fr.Wt, fr.W = twin_outcome, holder.get('outcome'), Wt, W
        fr.spy_log, fr.before, fr.after = list(cas.spy_log), None, None
        if fr.outcome is None:
            raise Violation('operation never finished under the schedule', 'termination')
        try:
            compare(fr, case)
        except Violation as v:
            v.case = dict(case, sched={'mode': 'trace', 'trace': list(sched.trace)})
            raise
        if rec.in_recording_mode or rec.is_recording_sample_forced or rec.current_recording_id is not None:
            raise Violation('recorder not idle after the operation under this schedule: recording=%r forced=%r' % (
                rec.in_recording_mode, rec.is_recording_sample_forced), 'idle-after-schedule',
                case=dict(case, sched={'mode': 'trace', 'trace': list(sched.trace)}))
        # exactly one finalisation also under concurrency (transparent to the service, reported separately)
        created = [e for e in cas.spy_log if e[0] == 'create']
        fin = [e for e in cas.spy_log if e[0] in ('save', 'abort')]
        ctx.count('scheduled:finalisations=%d' % len(fin))
        if after is not None:
            # follow-up work on the same recorder once the schedule is over (no scheduler any more)
            DS.install(None)
            for name, val in list(vars(rec).items()):
                if isinstance(val, (DS.CoRLock, DS.CoLock)):
                    import threading as _t
                    setattr(rec, name, _t.RLock())
            try:
                after(rec, cas, prog)
            except Violation as v:
                v.case = dict(case, sched={'mode': 'trace', 'trace': list(sched.trace)})
                raise
        if extra_check is not None:
            try:
                extra_check(list(cas.spy_log))
            except Violation as v:
                v.case = dict(case, sched={'mode': 'trace', 'trace': list(sched.trace)})
                raise
        PS.forget_class(cls)
    finally:
        DS.install(None)
        z.__exit__(None, None, None)
    if account:
        ctx.case({'prog': case['prog'], 'trace': ''.join(n[-1] for n in sched.trace)}, sched.preemptions >= 1, classes=(
            'scheduled:' + case['how'], 'scheduled:preemptions=%d' % min(sched.preemptions, 5)))
    return sched


def tiny_threaded(behs, detach=False):
    """Two workers, one intercepted input call each, with the given body behaviours (detach: the operation does not
    wait for them and goes on with one output call of its own)."""
    decl = {'alias': 'in', 'kind': 'instance', 'resolver': False, 'capture': 'all', 'handler': 'none'}
    out = {'alias': 'out', 'kind': 'instance', 'handler': 'none'}

    def step(b, n):
        if b == 'out':
            return {'t': 'out', 'i': 0, 'a': n, 'kw': [], 'beh': 'ret', 'ret': n, 'exc': 'Err2'}
        return {'t': 'in', 'i': 0, 'a': n, 'b': 0, 'usekw': False, 'beh': b, 'ret': n, 'name': 'n1', 'exc': 'Err'}
    prog = {'klass': 'instance', 'ins': [decl], 'outs': [out], 'ending': 'return', 'result': None, 'extractor': 'none',
            'steps': [{'t': 'threads', 'workers': [[step(b, n)] for n, b in enumerate(behs)]}]}
    if detach:
        prog['steps'][0]['detach'] = True
        prog['steps'].append(step('out', 9))
    return {'prog': PS.assign_sids(prog), 'faults': [], 'enabled': True, 'params': None, 'threaded': True,
            'how': 'dfs:' + '+'.join(behs) + (':detached' if detach else ''), 'scheduled': True,
            'sched': {'mode': 'dfs'}}


def dfs_scheduled(ctx, behs, bound, extra_check=None):
    from pbt import detsched as DS
    case = tiny_threaded(behs)

    def on_run(sched):
        ctx.case({'dfs': behs, 'trace': ''.join(n[-1] for n in sched.trace)}, sched.preemptions >= 1,
                 classes=('scheduled-dfs:' + '+'.join(behs),))

    def run(chooser):
        import copy as _c
        return run_scheduled(ctx, _c.deepcopy(case), extra_check=extra_check, chooser=chooser, account=False)

    return DS.dfs_explore(run, bound, ctx.shard, ctx.nshards, free_bound=2, max_runs=ctx.pick(4000, 300000),
                          on_run=on_run)


def scheduled_cases():
    from props.C12 import scheds

    @st.composite
    def cases(draw):
        c = draw(threaded_cases())
        # another worker forces sampling / discards as well, to open check-then-use windows in those paths
        workers = c['prog']['steps'][0]['workers']
        for k, ws in enumerate(workers):
            if ws and ws[0]['beh'] == 'ret' and draw(st.booleans()):
                ws[0]['beh'] = draw(st.sampled_from(['force', 'discard', 'ret']))
        c['sched'] = draw(scheds)
        c['scheduled'] = True
        return c
    return cases()


def replay(ctx, case):
    if case.get('scheduled'):
        run_scheduled(ctx, case)
    elif case.get('threaded'):
        run_threaded(ctx, case)
    elif 'faults' in case:
        run_case(ctx, case)
    else:
        enumerate_case(ctx, case)


def bases():
    progs = PS.programs(values=V.small_values, max_steps=5, threads=False,
                        in_behs=('ret', 'ret', 'ret', 'raise', 'nested'), out_behs=('ret', 'ret', 'raise'),
                        in_extra={'handler': st.sampled_from(['none', 'wrap'])},
                        out_extra={'handler': st.sampled_from(['none', 'wrap'])})
    return st.fixed_dictionaries({'prog': progs.filter(lambda p: len(p['steps']) <= 6),
                                  'params': st.sampled_from(PARAMS), 'pair_seed': st.integers(0, 10 ** 6)})


def run(ctx):
    ok = hyp_search(ctx, bases(), lambda b: enumerate_case(ctx, b), ctx.pick(40, 200), label="sequential")
    if ok:
        ok = hyp_search(ctx, threaded_cases(), lambda c: run_threaded(ctx, c), ctx.pick(100, 1500), label="threaded")
    if ok:
        ok = hyp_search(ctx, scheduled_cases(), lambda c: run_scheduled(ctx, c), ctx.pick(60, 1500), label="scheduled")
    if ok:
        # bounded-preemption DFS over tiny two-worker programs
        from pbt.runner import guarded
        plans = [(['force', 'discard'], 1)] if ctx.quick else [(['force', 'discard'], 2), (['discard', 'discard'], 2),
                                                               (['ret', 'discard'], 2), (['out', 'discard'], 2),
                                                               (['raise', 'discard'], 2)]
        complete_all = True
        scopes = []
        for behs, bound in plans:
            def go(c):
                runs, complete = dfs_scheduled(ctx, behs, bound)
                ctx.extra['dfs_runs_' + '+'.join(behs)] = runs
                ctx.extra['dfs_complete_' + '+'.join(behs)] = bool(complete)
            if not guarded(ctx, {'dfs': behs, 'bound': bound}, go):
                break
            scopes.append('%s with <= %d preemptions' % ('+'.join(behs), bound))
        ctx.extra['exhaustive_parts'] = ('every schedule at line granularity of tape_recorder.py (<= 2 non-default '
                                         'choices at blocking points) of the two-worker programs: ' + '; '.join(scopes) +
                                         '. Fault placements (single faults) are enumerated exhaustively per generated '
                                         'program; programs, fault pairs and the other schedules are sampled.')
