"""C19 - the studio plays each recording once under its own category's tuning."""
import sys
import types

from hypothesis import strategies as st

from pbt import zoo
from pbt.runner import Violation, hyp_search

LEVEL = 'exploration'
SHARDS = {'quick': 8, 'thorough': 16}
RULE = ('Recordings of operations over categories {A, AB, A_B, B, BA} (prefixes of one another, underscores) are made '
        'on every cassette type (in-memory, file, S3 with and without key prefix); the REAL PlaybackStudio is run with '
        '(a) explicit id lists in a generated order (and a second run with a permutation of it) or (b) lookup-driven '
        'selection for a generated category list, with lookup properties left at their default (limit 20), without limit or '
        'with a limit of 1-3 (explicit ids ignore them; a lookup returns min(limit, n) recordings of the category); the tuner raises for a generated subset of categories; the '
        'per-category result generators are consumed in a generated interleaving; in-process, plus a small '
        'dedicated-process arm. Per-category playback function / extractor / comparator are harness closures tagged '
        'with their category that journal every call and put (tuning category, replayed id) into the verdict message. '
        'Oracle: every selected id is replayed exactly once, by the functions of its own category; result[category] of a '
        'failing tuner is that exception and other categories are complete; lookup-driven results hold exactly the ids '
        'of that category; per-category id order follows the input order; the category order of the result is the '
        'same for every permutation of the id list. Non-trivial: >= 2 categories in prefix relation with >= 1 recording '
        'each, or >= 1 failing tuner. Distinct = distinct case.')
ASSUMPTIONS = ['one recorder is shared by all categories (as the studio requires); generators are advanced one item at '
               'a time, so replays never overlap',
               'selections are sequences (list or tuple) as documented (":type recording_ids: list of str"); one-shot '
               'iterators, which the constructor neither documents nor rejects, are not generated']

CATS = ['A', 'AB', 'A_B', 'B', 'BA']
_mod = types.ModuleType('pbt.c19_classes')
sys.modules['pbt.c19_classes'] = _mod


def make_ops(rec):
    classes = {}
    for cat in CATS:
        def make(cat):
            class Op(object):
                def __init__(self, v=None):
                    self.v = v

                @rec.intercept_input('value')
                def value(self):
                    return self.v

                @rec.operation()
                def execute(self):
                    return (cat, self.value())
            Op.__name__ = cat
            Op.__qualname__ = cat
            Op.__module__ = 'pbt.c19_classes'
            setattr(_mod, cat, Op)
            return Op
        classes[cat] = make(cat)
    return classes


class TunerError(Exception):
    pass


def prefix_related(cats):
    cats = sorted(set(cats))
    return any(a != b and b.startswith(a) for a in cats for b in cats)


def run_case(ctx, case):
    from playback.tape_recorder import TapeRecorder
    from playback.studio.studio import PlaybackStudio
    from playback.studio.equalizer_tuning import EqualizerTuner, EqualizerTuning
    from playback.studio.equalizer import ComparatorResult, EqualityStatus, CompareExecutionConfig, Comparison
    from playback.studio.recordings_lookup import RecordingLookupProperties
    kind = case['cassette']
    with zoo.Zoo(kinds=('s3' if kind.startswith('s3') else kind,), s3_prefixes=('p' if kind == 's3p' else '',)) as z:
        cas = z.cassettes[0]
        rec = TapeRecorder(cas)
        rec.enable_recording()
        classes = make_ops(rec)
        made = []     # (category, id, value)
        for n, cat in enumerate(case['recordings']):
            before = set(cas.iter_recording_ids(cat))
            classes[cat](n).execute()
            new = set(cas.iter_recording_ids(cat)) - before
            if len(new) != 1:
                raise Violation('recording an operation of category %s created %r' % (cat, new), 'setup')
            made.append((cat, new.pop(), n))
        cat_of = dict((rid, cat) for cat, rid, _ in made)
        value_of = dict((rid, v) for _, rid, v in made)
        journal = []
        failing = set(case['failing'])
        tuner_errors = {}

        class Tuner(EqualizerTuner):
            def create_category_tuning(self, category):
                journal.append(('tune', category))
                if category in failing:
                    tuner_errors[category] = TunerError('no tuning for %s' % category)
                    raise tuner_errors[category]

                def playback_function(recording):
                    journal.append(('play', category, recording.id))
                    return classes[category]().execute()

                def extractor(outputs):
                    journal.append(('extract', category))
                    return next(o.value['args'][0] for o in outputs if TapeRecorder.OPERATION_OUTPUT_ALIAS in o.key)

                def comparator(recorded, played):
                    journal.append(('compare', category))
                    return ComparatorResult(EqualityStatus.Equal if recorded == played else EqualityStatus.Different,
                                            'tuning=%s recorded=%r played=%r' % (category, recorded, played))

                return EqualizerTuning(playback_function, extractor, comparator)

        def studio_run(ids, categories, order):
            del journal[:]
            cfg = CompareExecutionConfig(compare_in_dedicated_process=True, compare_process_timeout=8) \
                if case.get('dedicated') else None
            conv = tuple if case.get('container') == 'tuple' else list
            lp = case.get('lookup', 'nolimit')
            kw_lp = {} if lp == 'default' else {'lookup_properties': RecordingLookupProperties(
                start_date=None, limit=None if lp == 'nolimit' else lp)}
            studio = PlaybackStudio(conv(categories), Tuner(), rec, recording_ids=None if ids is None else conv(ids),
                                    compare_execution_config=cfg, **kw_lp)
            result = studio.play()
            if case.get('play_again') is not None:
                # the same studio object is played a second time after the tuner's situation changed (a category whose
                # tuning failed can now be tuned, another one fails now): the second run is judged like a first one
                for g in result.values():
                    if not isinstance(g, Exception):
                        for _ in g:
                            pass
                failing.clear()
                failing.update(case['play_again'])
                tuner_errors.clear()
                del journal[:]
                result = studio.play()
            keys = list(result.keys())
            gens = dict((c, iter(g)) for c, g in result.items() if not isinstance(g, Exception))
            got = dict((c, []) for c in gens)
            live = list(gens)
            k = 0
            while live:
                c = live[order[k % len(order)] % len(live)]
                k += 1
                try:
                    comp = next(gens[c])
                except StopIteration:
                    live.remove(c)
                    continue
                if not isinstance(comp, Comparison):
                    raise Violation('result generator of %s yielded %r' % (c, comp), 'result-type')
                got[c].append(comp)
            return keys, result, got

        if case['mode'] == 'explicit':
            ids = [made[i % len(made)][1] for i in case['pick']] if made else []
            seen = set()
            ids = [i for i in ids if not (i in seen or seen.add(i))]
            if not ids:
                return
            want = {}
            for rid in ids:
                want.setdefault(cat_of[rid], []).append(rid)
            categories = ['ignored-when-ids-given']
        else:
            categories = list(case['categories'])
            ids = None
            want = dict((c, [rid for cat, rid, _ in made if cat == c]) for c in categories)
        first_failing = set(failing)
        keys, result, got = studio_run(ids, categories, case['order'])
        lp_ = case.get('lookup', 'nolimit')
        lim = None if lp_ == 'nolimit' else (20 if lp_ == 'default' else lp_)    # documented default limit: 20
        # categories
        if sorted(keys) != sorted(want):
            raise Violation('studio reported categories %r, selected recordings belong to %r' % (keys, sorted(want)),
                            'categories')
        if case['mode'] == 'explicit' and keys != sorted(keys):
            raise Violation('category order %r is not deterministic (sorted) for explicit ids' % (keys,), 'order')
        for c in want:
            if c in failing:
                if result[c] is not tuner_errors.get(c):
                    raise Violation('category %s has a failing tuner but its result is %r' % (c, result[c]),
                                    'tuner-failure')
                continue
            if isinstance(result[c], Exception):
                raise Violation('category %s reported %r although its tuner works (failing: %r)' % (
                    c, result[c], sorted(failing)), 'tuner-failure')
            got_ids = [comp.recording_id for comp in got[c]]
            if case['mode'] == 'explicit':
                if got_ids != want[c]:
                    raise Violation('category %s replayed %r, selected (in order) %r' % (c, got_ids, want[c]), 'routing')
            elif lim is not None:
                if len(set(got_ids)) != len(got_ids) or not set(got_ids) <= set(want[c]) or \
                        len(got_ids) != min(lim, len(want[c])):
                    raise Violation('lookup-driven category %s with limit %r replayed %r, its recordings are %r' % (
                        c, lim, got_ids, want[c]), 'routing')
            elif sorted(got_ids) != sorted(want[c]):
                raise Violation('lookup-driven category %s replayed %r, its recordings are %r (all: %r)' % (
                    c, got_ids, want[c], [(cc, r) for cc, r, _ in made]), 'routing')
            for comp in got[c]:
                rid = comp.recording_id
                msg = comp.comparator_status.message or ''
                exp = 'tuning=%s recorded=%r played=%r' % (c, (cat_of.get(rid), value_of.get(rid)),
                                                             (cat_of.get(rid), value_of.get(rid)))
                if comp.comparator_status.equality_status.name != 'Equal' or msg != exp:
                    raise Violation('recording %s of category %s got verdict %s %r, expected Equal %r' % (
                        rid, cat_of.get(rid), comp.comparator_status.equality_status.name, msg, exp), 'own-tuning')
                if comp.playback is None or comp.playback.original_recording.id != rid:
                    raise Violation('comparison of %s carries the replay of %r' % (
                        rid, comp.playback and comp.playback.original_recording.id), 'routing')
        if not case.get('dedicated'):
            plays = [j for j in journal if j[0] == 'play']
            selected = [rid for c in want if c not in failing for rid in want[c]]
            if case['mode'] != 'explicit' and lim is not None:
                selected = [comp.recording_id for c in want if c not in failing for comp in got[c]]
            if sorted(p[2] for p in plays) != sorted(selected):
                raise Violation('replays performed %r, selected %r' % (sorted(p[2] for p in plays), sorted(selected)),
                                'exactly-once')
            for _, c, rid in plays:
                if cat_of[rid] != c:
                    raise Violation('recording %s of category %s was replayed by the playback function of %s' % (
                        rid, cat_of[rid], c), 'own-tuning')
            tunes = [j[1] for j in journal if j[0] == 'tune']
            if sorted(tunes) != sorted(want):
                raise Violation('tunings created for %r, categories are %r' % (tunes, sorted(want)), 'tuning')
        # metamorphic: permuting the id list does not change the category order nor the per-category sets
        if case['mode'] == 'explicit' and len(ids) > 1:
            perm = [ids[i] for i in sorted(range(len(ids)), key=lambda i: (case['perm'][i % len(case['perm'])], i))]
            failing.clear()
            failing.update(first_failing)
            keys2, result2, got2 = studio_run(perm, categories, case['order'][::-1] or [0])
            if keys2 != keys:
                raise Violation('category order changed with the order of the id list: %r vs %r' % (keys, keys2),
                                'order')
            for c in got:
                if sorted(x.recording_id for x in got[c]) != sorted(x.recording_id for x in got2.get(c, [])):
                    raise Violation('category %s replays differ after permuting the id list' % c, 'routing')
    cats_present = [c for c in want if want[c]]
    nt = prefix_related(cats_present) or bool(failing & set(want))
    ctx.case(case, nt, classes=('mode:' + case['mode'], 'cassette:' + kind, 'failing:%d' % len(failing & set(want)),
                                'dedicated' if case.get('dedicated') else 'in-process',
                                'categories:%d' % len(want), 'lookup-properties:%s' % case.get('lookup', 'nolimit'),
                                'studio-played-twice' if case.get('play_again') is not None else 'studio-played-once'))


@st.composite
def cases(draw):
    recs = draw(st.lists(st.sampled_from(CATS), min_size=1, max_size=8))
    mode = draw(st.sampled_from(['explicit', 'explicit', 'lookup']))
    case = {'cassette': draw(st.sampled_from(['memory', 'memory', 'file', 's3', 's3p'])), 'recordings': recs,
            'mode': mode, 'failing': draw(st.lists(st.sampled_from(CATS), max_size=2, unique=True)),
            'order': draw(st.lists(st.integers(0, 5), min_size=1, max_size=6)),
            'dedicated': draw(st.sampled_from([False] * 9 + [True])),
            'container': draw(st.sampled_from(['list', 'list', 'tuple'])),
            'lookup': draw(st.sampled_from(['nolimit', 'nolimit', 'default', 1, 2, 3]))}
    if draw(st.sampled_from([False, False, True])):
        case['play_again'] = draw(st.lists(st.sampled_from(CATS), max_size=2, unique=True))
    if mode == 'explicit':
        case['pick'] = draw(st.lists(st.integers(0, 20), min_size=1, max_size=8))
        case['perm'] = draw(st.lists(st.integers(0, 9), min_size=1, max_size=8))
    else:
        case['categories'] = draw(st.lists(st.sampled_from(CATS), min_size=1, max_size=4, unique=True))
    return case


def replay(ctx, case):
    run_case(ctx, case)


def run(ctx):
    hyp_search(ctx, cases(), lambda c: run_case(ctx, c), ctx.pick(250, 1500), label="studio", shrink=True)
