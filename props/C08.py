"""C08 - every recording gets exactly one, correctly attributed verdict."""
from hypothesis import strategies as st

from pbt import procfault as PF
from pbt.runner import Violation, hyp_search, guarded

LEVEL = 'exploration'
SHARDS = {'quick': 12, 'thorough': 16}
RULE = ('Scenarios: sequences of 1-8 recording ids, a behaviour per id (equal, different, player raises, extractor '
        'raises, comparator raises, comparator returns a bare status, worker exits, worker hangs past the timeout, '
        'worker answers just after the parent gave up - the slow-kill schedule is owned by the harness), in-process or '
        'dedicated-process execution, recycle rate 1-4, with and without keeping results, run through the REAL '
        'Equalizer with real forked workers. Oracle: one Comparison per id, in input order, labelled with that id; '
        'playback is None or belongs to that id; kept expected/actual are the extractor\'s values for that id; status '
        '= verdict of that id\'s own behaviour (EqualizerFailure for raises / exit / hang / late answer, the '
        'comparator\'s status and message otherwise, a bare status wrapped); for scripts without process faults the '
        'in-process and the dedicated run give the same status/message lists. Non-trivial: >= 1 failing id followed by '
        '>= 1 later id. Distinct = distinct scenario.')
ASSUMPTIONS = ['playback objects are small picklable harness objects whose original_recording.id is the id they were '
               'produced for', 'late answer: the harness wraps os.kill in the parent so that the worker answers between '
               'the parent\'s "timed out" decision and the delivery of SIGKILL (a legitimate OS schedule made '
               'deterministic)']

FAILING = ('player_raises', 'extractor_raises', 'comparator_raises', 'bad_answer') + PF.PROCESS_FAULTS


def check(scenario, obs):
    ids, script = scenario['ids'], scenario['script']
    if obs['error'] and obs['error'].startswith('HARD-CAP'):
        raise Violation('the comparison run did not finish: %s (verdicts so far %r)' % (
            obs['error'][:300], [(c['recording_id'], c['status']) for c in obs['comparisons']]), 'termination')
    if obs['error']:
        raise Violation('run_comparison raised %s' % obs['error'], 'run-raises')
    comps = obs['comparisons']
    got_ids = [c['recording_id'] for c in comps]
    if got_ids != ids:
        raise Violation('comparisons are labelled %r, input ids were %r' % (got_ids, ids), 'one-per-id-in-order')
    for c in comps:
        rid = c['recording_id']
        b = script[rid]
        want = PF.expected_status(b, scenario['dedicated']).name
        if c['playback_id'] is not None and c['playback_id'] != rid:
            raise Violation('comparison labelled %s carries the replay of %s (script %r)' % (
                rid, c['playback_id'], [script[i] for i in ids]), 'attribution')
        if c['status'] != want:
            raise Violation('recording %s (%s) got verdict %s (%r), expected %s; script %r, all verdicts %r' % (
                rid, b, c['status'], c['message'], want, [script[i] for i in ids],
                [(x['recording_id'], x['status']) for x in comps]), 'verdict')
        if (b in ('equal', 'different') or (b == 'bad_answer' and not scenario['dedicated'])) and \
                c['message'] != 'verdict of %s' % rid:
            raise Violation('recording %s carries the message %r of another recording' % (rid, c['message']),
                            'attribution')
        if b == 'bare_status' and c['message'] is not None:
            raise Violation('bare status of %s was given message %r' % (rid, c['message']), 'attribution')
        if scenario.get('keep') and c['playback_id'] is not None and b not in ('extractor_raises',):
            if c['expected'] != ['recorded', rid] or c['actual'] != ['played', rid]:
                raise Violation('kept results of %s are %r / %r' % (rid, c['expected'], c['actual']), 'attribution')
        if c['playback_id'] is None and (c['expected'] is not None or c['actual'] is not None):
            raise Violation('comparison of %s has no replay but carries results %r / %r (of another recording)' % (
                rid, c['expected'], c['actual']), 'attribution')
        if not scenario.get('keep') and (c['expected'] is not None or c['actual'] is not None):
            raise Violation('results kept although keep_results_in_comparison is off', 'keep')
        if b in ('equal', 'different', 'bare_status', 'comparator_raises') and c['playback_id'] != rid:
            raise Violation('recording %s (%s) has no replay attached' % (rid, b), 'attribution')


def nontrivial(scenario):
    bs = [scenario['script'][i] for i in scenario['ids']]
    return any(b in FAILING for b in bs[:-1])


def run_one(ctx, scenario):
    obs = PF.run_scenario(scenario)
    check(scenario, obs)
    bs = [scenario['script'][i] for i in scenario['ids']]
    if not any(b in PF.PROCESS_FAULTS or b == 'bad_answer' for b in bs):
        # differential: the other execution mode must give the same verdict list
        other = dict(scenario, dedicated=not scenario['dedicated'])
        obs2 = PF.run_scenario(other)
        check(other, obs2)
        a = [(c['status'], c['message']) for c in obs['comparisons']]
        b = [(c['status'], c['message']) for c in obs2['comparisons']]
        if a != b:
            raise Violation('in-process and dedicated-process execution disagree: %r vs %r' % (a, b), 'mode-differential')
        ctx.count('differential')
    pos = []
    for n, b in enumerate(bs):
        if b in FAILING:
            pos.append('first' if n == 0 else 'last' if n == len(bs) - 1 else 'middle')
            if n + 1 < len(bs) and bs[n + 1] in FAILING:
                pos.append('consecutive')
    ctx.case(scenario, nontrivial(scenario), classes=tuple(set('beh:' + b for b in bs)) + tuple(
        set('pos:' + p for p in pos)) + ('dedicated' if scenario['dedicated'] else 'in-process',
                                         'keep' if scenario.get('keep') else 'nokeep',
                                         'recycle:%d' % scenario.get('recycle', 3)))


@st.composite
def scenarios(draw, dedicated=None):
    n = draw(st.integers(1, 8))
    ids = ['rec%d' % i for i in range(n)]
    ded = draw(st.booleans()) if dedicated is None else dedicated
    if ded:
        pool = ['equal', 'equal', 'different', 'player_raises', 'extractor_raises', 'comparator_raises', 'bare_status',
                'exit', 'hang', 'late', 'late', 'hang_sigterm_ignored', 'dies_after_giveup', 'bad_answer', 'killed_in_poll']
    else:
        pool = ['equal', 'equal', 'different', 'player_raises', 'extractor_raises', 'comparator_raises', 'bare_status']
    behs = [draw(st.sampled_from(pool)) for _ in ids]
    # bound the wall time of one scenario: at most 3 process faults
    faults = [i for i, b in enumerate(behs) if b in PF.PROCESS_FAULTS]
    for i in faults[3:]:
        behs[i] = 'equal'
    return {'ids': ids, 'script': dict(zip(ids, behs)), 'dedicated': ded, 'recycle': draw(st.integers(1, 4)),
            'timeout': draw(st.sampled_from([0.2, 0.3, 0.5])), 'keep': draw(st.booleans()), 'consume': 'full'}


FIXED = [
    {'ids': ['a', 'b', 'c', 'd'], 'script': {'a': 'equal', 'b': 'killed_in_poll', 'c': 'equal', 'd': 'different'},
     'dedicated': True, 'recycle': 2, 'timeout': 0.3, 'keep': True, 'consume': 'full', 'hard_cap_s': 30},
    {'ids': ['r0', 'r1', 'r2', 'r3'], 'script': {'r0': 'equal', 'r1': 'late', 'r2': 'equal', 'r3': 'different'},
     'dedicated': True, 'recycle': 3, 'timeout': 0.3, 'keep': True, 'consume': 'full'},
    {'ids': ['r0', 'r1', 'r2'], 'script': {'r0': 'hang', 'r1': 'exit', 'r2': 'equal'},
     'dedicated': True, 'recycle': 1, 'timeout': 0.2, 'keep': False, 'consume': 'full'},
]


def replay(ctx, case):
    obs = PF.run_scenario(case)
    check(case, obs)


def run(ctx):
    if ctx.shard == 0:
        for sc in FIXED:
            guarded(ctx, sc, lambda c: run_one(ctx, c))
    if not ctx.violations:
        hyp_search(ctx, scenarios(), lambda c: run_one(ctx, c), ctx.pick(14, 180), label='scenarios',
                   shrink=not ctx.quick)
