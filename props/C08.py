"""C08 - every recording gets exactly one, correctly attributed verdict."""
from hypothesis import strategies as st

from pbt import procfault as PF
from pbt.runner import Violation, hyp_search, guarded

LEVEL = 'exploration'
SHARDS = {'quick': 12, 'thorough': 16}
RULE = ('Scenarios: sequences of 1-8 recording ids, a behaviour per id (equal, different, player raises, extractor '
        'raises, comparator raises, comparator returns a bare status, worker exits, worker hangs past the timeout, '
        'worker answers just after the parent gave up - the slow-kill schedule is owned by the harness), in-process or '
        'dedicated-process execution, recycle rate 1-4, with and without keeping results, run through the REAL '
        'Equalizer with real forked workers. Oracle: one Comparison per id, in input order, labelled with that id; '
        'playback is None or belongs to that id; kept expected/actual are the extractor\'s values for that id; status '
        '= verdict of that id\'s own behaviour (EqualizerFailure for raises / exit / hang / late answer, the '
        'comparator\'s status and message otherwise, a bare status wrapped); for scripts without process faults the '
        'in-process and the dedicated run give the same status/message lists. Part 2: the player is a real TapeRecorder '
        'replaying 1-6 real recordings of one operation (two output calls around an input read) where the replayed code, '
        'per recording, is unchanged / sends something else / asks for an input that was never recorded before or after '
        'its first output call / raises as recorded / has a failing playback function; in-process and dedicated with '
        'recycle rate 1-6; expected Equal / Different / EqualizerFailure per recording. Non-trivial: >= 1 failing id followed by '
        '>= 1 later id. Distinct = distinct scenario.')
ASSUMPTIONS = ['playback objects are small picklable harness objects whose original_recording.id is the id they were '
               'produced for', 'late answer: the harness wraps os.kill in the parent so that the worker answers between '
               'the parent\'s "timed out" decision and the delivery of SIGKILL (a legitimate OS schedule made '
               'deterministic)']

# ---- part 2: the player is a real TapeRecorder replaying real recordings (as the studio wires it)

import sys   # noqa: E402
import types  # noqa: E402

_mod = types.ModuleType('pbt.c08_classes')
sys.modules['pbt.c08_classes'] = _mod
REAL_KINDS = ('ok', 'ok', 'changed', 'missing_after_output', 'missing_first', 'op_raises', 'playback_fn_raises')
REAL_WANT = {'ok': 'Equal', 'op_raises': 'Equal', 'changed': 'Different', 'missing_after_output': 'EqualizerFailure',
             'missing_first': 'EqualizerFailure', 'playback_fn_raises': 'EqualizerFailure'}


def real_player_case(ctx, case):
    """case = {kinds: [kind per recording], recycle, keep}. Every recording is one run of the same operation (two
    output calls around an input read); what the replayed code does for it is scripted per recording id."""
    import logging
    from playback.tape_recorder import TapeRecorder
    from playback.tape_cassettes.in_memory.in_memory_tape_cassette import InMemoryTapeCassette
    from playback.studio.equalizer import Equalizer, CompareExecutionConfig, EqualityStatus
    from playback.exceptions import TapeRecorderException
    rec = TapeRecorder(InMemoryTapeCassette())
    rec.enable_recording()
    mode = {}

    class RealOp(object):
        def __init__(self, n=None):
            self.n = n

        @rec.intercept_input('c08.load')
        def load(self, what):
            return [what, self.n]

        @rec.intercept_output('c08.notify')
        def notify(self, msg):
            return 'ack'

        @rec.operation()
        def execute(self):
            kind = mode.get('kind', 'ok')
            if kind == 'missing_first':
                self.load('never recorded')
            self.notify('start')
            got = self.load('resource' if kind != 'missing_after_output' else 'moved resource')
            self.notify(['done', got] if kind != 'changed' else ['done differently', got])
            if mode.get('raises'):
                raise ValueError('operation fails')
            return got

    RealOp.__qualname__ = 'RealOp'
    RealOp.__module__ = 'pbt.c08_classes'
    _mod.RealOp = RealOp
    ids, script = [], {}
    for n, kind in enumerate(case['kinds']):
        mode.clear()
        mode['raises'] = kind == 'op_raises'
        before = set(rec.tape_cassette.get_all_recording_ids())
        try:
            RealOp(n).execute()
        except ValueError:
            pass
        new = set(rec.tape_cassette.get_all_recording_ids()) - before
        if len(new) != 1:
            raise Violation('recording run %d created %r' % (n, new), 'setup')
        ids.append(new.pop())
        script[ids[-1]] = kind
    rec.disable_recording()

    def player(rid):
        kind = script[rid]
        mode.clear()
        mode['kind'] = kind
        mode['raises'] = kind == 'op_raises'

        def playback_function(recording):
            if kind == 'playback_fn_raises':
                RealOp().notify('start')
                raise RuntimeError('playback function fails')
            return RealOp().execute()
        return rec.play(rid, playback_function)

    def plain(v):
        # exceptions keep only their type through the serializer
        if isinstance(v, BaseException):
            return 'exception ' + type(v).__name__
        if isinstance(v, dict):
            return sorted((k, plain(x)) for k, x in v.items())
        if isinstance(v, (list, tuple)):
            return [plain(x) for x in v]
        return repr(v)

    def extractor(outputs):
        return sorted((o.key, plain(o.value)) for o in outputs)

    def comparator(a, b):
        return EqualityStatus.Equal if a == b else EqualityStatus.Different

    old_disable = logging.root.manager.disable
    logging.disable(logging.CRITICAL)
    lists = {}
    try:
        for dedicated in (False, True):
            cfg = CompareExecutionConfig(keep_results_in_comparison=case.get('keep', False),
                                         compare_in_dedicated_process=dedicated,
                                         compare_process_recycle_rate=case['recycle'], compare_process_timeout=20)
            comps = list(Equalizer(list(ids), player, extractor, comparator,
                                   compare_execution_config=cfg).run_comparison())
            got_ids = [c.recording_id for c in comps]
            if got_ids != ids:
                raise Violation('comparisons are labelled %r, input ids were %r' % (got_ids, ids), 'one-per-id-in-order')
            verdicts = [c.comparator_status.equality_status.name for c in comps]
            want = [REAL_WANT[script[i]] for i in ids]
            if verdicts != want:
                bad = [n for n, (v, w) in enumerate(zip(verdicts, want)) if v != w][0]
                raise Violation('real recorder as player, %s: recording #%d (%s) got %s (%s), expected %s; kinds %r, '
                                'verdicts %r' % ('dedicated process, recycle rate %d' % case['recycle'] if dedicated
                                                 else 'in-process', bad, case['kinds'][bad], verdicts[bad],
                                                 comps[bad].comparator_status.message, want[bad], case['kinds'],
                                                 verdicts), 'verdict')
            for c in comps:
                if c.playback is not None and c.playback.original_recording.id != c.recording_id:
                    raise Violation('comparison of %s carries the replay of %s' % (
                        c.recording_id, c.playback.original_recording.id), 'attribution')
            lists[dedicated] = verdicts
    finally:
        logging.disable(old_disable)
        import multiprocessing as mp
        for ch in mp.active_children():
            ch.join(5)
    failing = [k for k in case['kinds'][:-1] if REAL_WANT[k] == 'EqualizerFailure']
    ctx.case({'real_player': case}, bool(failing), classes=('real-player',) + tuple(set('real:' + k for k in case['kinds'])))


real_cases = st.fixed_dictionaries({'kinds': st.lists(st.sampled_from(REAL_KINDS), min_size=1, max_size=6),
                                    'recycle': st.integers(1, 6), 'keep': st.booleans()})


FAILING = ('player_raises', 'extractor_raises', 'comparator_raises', 'bad_answer') + PF.PROCESS_FAULTS


def check(scenario, obs):
    ids, script = scenario['ids'], scenario['script']
    if obs['error'] and obs['error'].startswith('HARD-CAP'):
        raise Violation('the comparison run did not finish: %s (verdicts so far %r)' % (
            obs['error'][:300], [(c['recording_id'], c['status']) for c in obs['comparisons']]), 'termination')
    if obs['error']:
        raise Violation('run_comparison raised %s' % obs['error'], 'run-raises')
    comps = obs['comparisons']
    got_ids = [c['recording_id'] for c in comps]
    if got_ids != ids:
        raise Violation('comparisons are labelled %r, input ids were %r' % (got_ids, ids), 'one-per-id-in-order')
    for c in comps:
        rid = c['recording_id']
        b = script[rid]
        want = PF.expected_status(b, scenario['dedicated']).name
        if c['playback_id'] is not None and c['playback_id'] != rid:
            raise Violation('comparison labelled %s carries the replay of %s (script %r)' % (
                rid, c['playback_id'], [script[i] for i in ids]), 'attribution')
        if c['status'] != want:
            raise Violation('recording %s (%s) got verdict %s (%r), expected %s; script %r, all verdicts %r' % (
                rid, b, c['status'], c['message'], want, [script[i] for i in ids],
                [(x['recording_id'], x['status']) for x in comps]), 'verdict')
        if (b in ('equal', 'different') or (b == 'bad_answer' and not scenario['dedicated'])) and \
                c['message'] != 'verdict of %s' % rid:
            raise Violation('recording %s carries the message %r of another recording' % (rid, c['message']),
                            'attribution')
        if b == 'bare_status' and c['message'] is not None:
            raise Violation('bare status of %s was given message %r' % (rid, c['message']), 'attribution')
        if scenario.get('keep') and c['playback_id'] is not None and b not in ('extractor_raises',):
            if c['expected'] != ['recorded', rid] or c['actual'] != ['played', rid]:
                raise Violation('kept results of %s are %r / %r' % (rid, c['expected'], c['actual']), 'attribution')
        if c['playback_id'] is None and (c['expected'] is not None or c['actual'] is not None):
            raise Violation('comparison of %s has no replay but carries results %r / %r (of another recording)' % (
                rid, c['expected'], c['actual']), 'attribution')
        if not scenario.get('keep') and (c['expected'] is not None or c['actual'] is not None):
            raise Violation('results kept although keep_results_in_comparison is off', 'keep')
        if b in ('equal', 'different', 'bare_status', 'comparator_raises') and c['playback_id'] != rid:
            raise Violation('recording %s (%s) has no replay attached' % (rid, b), 'attribution')


def nontrivial(scenario):
    bs = [scenario['script'][i] for i in scenario['ids']]
    return any(b in FAILING for b in bs[:-1])


def timing_suspect(scenario, obs):
    """A behaviour that involves no process fault was reported as timed out / died: on an overloaded machine a healthy
    worker may need longer than the scenario's (deliberately short) timeout to fork and answer."""
    for c in obs['comparisons']:
        b = scenario['script'].get(c['recording_id'])
        if b not in PF.PROCESS_FAULTS and b != 'bad_answer' and c['status'] == 'EqualizerFailure' and \
                ('timeout' in (c['message'] or '') or 'died' in (c['message'] or '')):
            return True
    return False


def checked(ctx, scenario):
    """run + check; a verdict that may be an artefact of machine load is confirmed with a ten times longer timeout
    before it is called a violation (a time limit hit is inconclusive, never a violation by itself)."""
    obs = PF.run_scenario(scenario)
    try:
        check(scenario, obs)
    except Violation:
        if not (scenario['dedicated'] and timing_suspect(scenario, obs)):
            raise
        slow = dict(scenario, timeout=max(5.0, 10 * scenario['timeout']), hard_cap_s=180)
        obs = PF.run_scenario(slow)
        check(slow, obs)
        ctx.count('timing-retry: passed with a longer timeout')
    return obs


def run_one(ctx, scenario):
    obs = checked(ctx, scenario)
    bs = [scenario['script'][i] for i in scenario['ids']]
    if not any(b in PF.PROCESS_FAULTS or b == 'bad_answer' for b in bs):
        # differential: the other execution mode must give the same verdict list
        other = dict(scenario, dedicated=not scenario['dedicated'])
        obs2 = checked(ctx, other)
        a = [(c['status'], c['message']) for c in obs['comparisons']]
        b = [(c['status'], c['message']) for c in obs2['comparisons']]
        if a != b:
            raise Violation('in-process and dedicated-process execution disagree: %r vs %r' % (a, b), 'mode-differential')
        ctx.count('differential')
    pos = []
    for n, b in enumerate(bs):
        if b in FAILING:
            pos.append('first' if n == 0 else 'last' if n == len(bs) - 1 else 'middle')
            if n + 1 < len(bs) and bs[n + 1] in FAILING:
                pos.append('consecutive')
    ctx.case(scenario, nontrivial(scenario), classes=tuple(set('beh:' + b for b in bs)) + tuple(
        set('pos:' + p for p in pos)) + ('dedicated' if scenario['dedicated'] else 'in-process',
                                         'keep' if scenario.get('keep') else 'nokeep',
                                         'recycle:%d' % scenario.get('recycle', 3)))


@st.composite
def scenarios(draw, dedicated=None):
    n = draw(st.sampled_from([0, 1, 1, 2, 2, 3, 3, 4, 5, 6, 7, 8]))     # also a lookup that found nothing
    ids = ['rec%d' % i for i in range(n)]
    ded = draw(st.booleans()) if dedicated is None else dedicated
    if ded:
        pool = ['equal', 'equal', 'different', 'player_raises', 'extractor_raises', 'comparator_raises', 'bare_status',
                'exit', 'hang', 'late', 'late', 'hang_sigterm_ignored', 'dies_after_giveup', 'bad_answer', 'killed_in_poll']
    else:
        pool = ['equal', 'equal', 'different', 'player_raises', 'extractor_raises', 'comparator_raises', 'bare_status']
    behs = [draw(st.sampled_from(pool)) for _ in ids]
    # bound the wall time of one scenario: at most 3 process faults
    faults = [i for i, b in enumerate(behs) if b in PF.PROCESS_FAULTS]
    for i in faults[3:]:
        behs[i] = 'equal'
    return {'ids': ids, 'script': dict(zip(ids, behs)), 'dedicated': ded, 'recycle': draw(st.integers(1, 4)),
            'timeout': draw(st.sampled_from([0.2, 0.3, 0.5])), 'keep': draw(st.booleans()), 'consume': 'full'}


FIXED = [
    {'ids': [], 'script': {}, 'dedicated': True, 'recycle': 2, 'timeout': 0.3, 'keep': True, 'consume': 'full'},
    {'ids': [], 'script': {}, 'dedicated': False, 'recycle': 2, 'timeout': 0.3, 'keep': False, 'consume': 'full'},
    {'ids': ['a', 'b', 'c', 'd'], 'script': {'a': 'equal', 'b': 'killed_in_poll', 'c': 'equal', 'd': 'different'},
     'dedicated': True, 'recycle': 2, 'timeout': 0.3, 'keep': True, 'consume': 'full', 'hard_cap_s': 30},
    {'ids': ['r0', 'r1', 'r2', 'r3'], 'script': {'r0': 'equal', 'r1': 'late', 'r2': 'equal', 'r3': 'different'},
     'dedicated': True, 'recycle': 3, 'timeout': 0.3, 'keep': True, 'consume': 'full'},
    {'ids': ['r0', 'r1', 'r2'], 'script': {'r0': 'hang', 'r1': 'exit', 'r2': 'equal'},
     'dedicated': True, 'recycle': 1, 'timeout': 0.2, 'keep': False, 'consume': 'full'},
    {'ids': ['r0', 'r1', 'r2', 'r3'], 'script': {'r0': 'equal', 'r1': 'dies_after_giveup', 'r2': 'equal', 'r3': 'different'},
     'dedicated': True, 'recycle': 3, 'timeout': 0.3, 'keep': True, 'consume': 'full'},
]


def replay(ctx, case):
    if 'real_player' in case:
        real_player_case(ctx, case['real_player'])
        return
    obs = PF.run_scenario(case)
    check(case, obs)


def run(ctx):
    if ctx.shard == 0:
        for sc in FIXED:
            guarded(ctx, sc, lambda c: run_one(ctx, c))
    if not ctx.violations:
        hyp_search(ctx, scenarios(), lambda c: run_one(ctx, c), ctx.pick(14, 180), label='scenarios',
                   shrink=not ctx.quick)
    if not ctx.violations:
        hyp_search(ctx, real_cases, lambda c: real_player_case(ctx, c), ctx.pick(6, 80), label='real-player',
                   shrink=not ctx.quick)
