"""C01 - replay on unchanged code reproduces the recorded run."""
import copy

from hypothesis import strategies as st

from pbt import progsim as PS, values as V, zoo
from pbt.runner import Violation, hyp_search

LEVEL = 'exploration'
SHARDS = {'quick': 8, 'thorough': 16}
RULE = ('Hypothesis-generated operation programs (0-10 steps plus bursts of up to 21 calls of one output alias; '
        'instance/static/property inputs, instance/static outputs, instance and class-level operations, alias '
        'resolvers, fallback aliases (also naming the live alias of another input of the operation, with the same call made '
        'through both), every capture selection, invertible input/output data handlers, interceptions nested in intercepted '
        'bodies, raising bodies, intercepted calls cut short by an interrupt-style exception that the operation swallows, raising operations, 2-3 worker threads with thread-private output aliases; values from '
        'the faithful domain, objects-without-aliasing and aliasing-without-list-state families) are built into real '
        'classes with the real decorators, recorded once, stored and fetched through a cassette in {in-memory, file, '
        'S3/"", S3/"p/q", async wrapper over in-memory, async wrapper over slow storage} - on a fresh recorder or on one that '
        'already recorded (and replayed) another operation with the same output aliases -, and replayed (playback function builds the instance directly '
        'or resolves the class from the recording metadata). Oracle (round trip): every call site gets the same value '
        '(==, same type) or the same exception type as live; same operation result; playback_outputs == '
        'recorded_outputs as key->value maps without duplicate keys; no wrapped body executes during replay. '
        'Non-trivial: >= 2 interceptions with >= 1 input taking arguments and >= 1 output, or any of handler, resolver, '
        'capture subset, nesting, threads, raising interception, > 9 calls of one alias. Recording parameters '
        '(copy-on-interception, rate >= 1, ignore-forcing) are drawn per program. Distinct = distinct '
        '(program, cassette, playback style).')
ASSUMPTIONS = ['an input is a function of its alias and captured arguments (generator normalises duplicate keys)',
               'values in the faithful domain of the pinned serializer (DESIGN.md 2.2)',
               'worker threads use thread-private output aliases; thread interleavings are whatever the OS gives',
               'exceptions keep only their type through the serializer']

CASSETTES = ['memory', 'memory', 'file', 's3', 's3p', 'async', 'async-slow']


def open_cassette(kind):
    """Returns (zoo context, cassette used for recording, cassette used for fetching)."""
    if kind in ('s3', 's3p'):
        z = zoo.Zoo(kinds=('s3',), s3_prefixes=('' if kind == 's3' else 'p/q',)).__enter__()
        return z, z.cassettes[0], z.cassettes[0]
    if kind == 'async':
        from playback.tape_cassettes.asynchronous.async_record_only_tape_cassette import AsyncRecordOnlyTapeCassette
        z = zoo.Zoo(kinds=('memory',)).__enter__()
        a = AsyncRecordOnlyTapeCassette(z.cassettes[0], flush_interval=0.001)
        a.start()
        return z, a, z.cassettes[0]
    if kind == 'async-slow':
        # asynchronous wrapper over storage that takes a moment per write: flush rounds overlap with the operation
        from playback.tape_cassettes.asynchronous.async_record_only_tape_cassette import AsyncRecordOnlyTapeCassette
        from pbt.slowstore import SlowCassette
        z = zoo.Zoo(kinds=()).__enter__()
        wrapped = SlowCassette(0.0004)
        a = AsyncRecordOnlyTapeCassette(wrapped, flush_interval=0.0005)
        a.start()
        return z, a, wrapped
    z = zoo.Zoo(kinds=(kind,)).__enter__()
    return z, z.cassettes[0], z.cassettes[0]


def outputs_map(outputs, what):
    m = {}
    for o in outputs:
        if o.key in m:
            raise Violation('%s has duplicate key %r' % (what, o.key), 'duplicate-output-key')
        m[o.key] = o.value
    return m


def norm_output_value(key, v):
    """Exceptions compare by type only (the serializer keeps only the type)."""
    if isinstance(v, dict) and isinstance(v.get('args'), list) and v['args'] and isinstance(v['args'][0], BaseException):
        return ('EXC', type(v['args'][0]).__name__)
    return v


def same(a, b):
    return a == b and type(a) is type(b)


def check_roundtrip(ctx, case):
    from playback.tape_recorder import TapeRecorder
    prog, cassette, style = case['prog'], case['cassette'], case['style']
    prog = PS.assign_sids(PS.normalise_inputs(copy.deepcopy(prog)))
    z, rec_cas, fetch_cas = open_cassette(cassette)
    cls = None
    try:
        rec = TapeRecorder(rec_cas)
        rec.enable_recording()
        if case.get('prior') and rec_cas is fetch_cas:
            # the recorder has a history: it recorded (and replayed) another operation using the same output aliases
            from pbt import faultrun as FR
            FR.warm_up(rec, prog, case['prior'])
        W = PS.World('LIVE')
        cls = PS.build_class(prog, rec, W)
        live = PS.execute(cls, prog)
        if live[0] == 'exc' and live[1] not in (prog.get('ending_exc', 'Err'),):
            raise Violation('operation raised %s into its caller: %r' % (live[1], live[2]), 'live-unexpected-exception')
        if not W.recording_ids:
            raise Violation('no recording was started for a recorded operation', 'no-recording')
        rid = W.recording_ids[-1]
        if rec_cas is not fetch_cas:
            rec_cas.close()
            rec.tape_cassette = fetch_cas
        live_sites, live_journal = dict(W.sites), list(W.journal)
        # replay
        W.world, W.sites, W.journal, W.body_out = 'REPLAY', {}, [], {}
        res = {}

        def playback_function(recording):
            if style == 'metadata-class':
                c = recording.get_metadata()[TapeRecorder.OPERATION_CLASS]
            else:
                c = cls
            target = c if prog.get('klass') == 'class' else c()
            res['r'] = target.execute()

        try:
            pb = rec.play(rid, playback_function)
        except Exception as e:  # pylint: disable=broad-except
            raise Violation('play() of a saved complete recording on unchanged code raised %s: %s' % (
                type(e).__name__, e), 'replay-raises')
        # (iv) no body in replay
        bodies = [j for j in W.journal if j[0] == 'body']
        if bodies:
            raise Violation('wrapped bodies executed during replay: %r' % (bodies[:3],), 'body-ran-in-replay')
        # (i) per call site
        if set(W.sites) != set(live_sites):
            raise Violation('replay made different calls: live %r, replay %r' % (sorted(live_sites), sorted(W.sites)),
                            'call-sites')
        for sid, lv in live_sites.items():
            rv = W.sites[sid]
            if lv[0] != rv[0]:
                raise Violation('call %s: live %s %r, replay %s %r' % (sid, lv[0], lv[1], rv[0], rv[1]), 'injection')
            if lv[0] == 'v' and not same(lv[1], rv[1]):
                raise Violation('call %s returned %r while recording but %r in replay' % (sid, lv[1], rv[1]),
                                'injection')
            if lv[0] == 'e' and type(lv[1]) is not type(rv[1]):
                raise Violation('call %s raised %r while recording but %r in replay' % (sid, lv[1], rv[1]), 'injection')
        # (ii) operation result
        if live[0] == 'ret':
            if 'r' not in res or not same(res['r'], live[1]):
                raise Violation('operation returned %r while recording, replay gave %r' % (live[1], res.get('r')),
                                'result')
        elif 'r' in res:
            raise Violation('operation raised %s while recording but returned %r in replay' % (live[1], res['r']),
                            'result')
        # (iii) outputs
        ro = outputs_map(pb.recorded_outputs, 'recorded_outputs')
        po = outputs_map(pb.playback_outputs, 'playback_outputs')
        nro = dict((k, norm_output_value(k, v)) for k, v in ro.items())
        npo = dict((k, norm_output_value(k, v)) for k, v in po.items())
        if nro != npo:
            diff = sorted(k for k in set(nro) | set(npo) if nro.get(k, '<absent>') != npo.get(k, '<absent>'))
            raise Violation('playback outputs differ from recorded outputs on unchanged code at %r: recorded %r, '
                            'playback %r' % (diff[:3], [ro.get(k) for k in diff[:3]], [po.get(k) for k in diff[:3]]),
                            'outputs')
        n_out_calls = len([s for s in PS.iter_steps(prog['steps']) if s['t'] == 'out'])
        if len(ro) != n_out_calls + 1:
            raise Violation('recorded outputs hold %d entries for %d output calls + the operation' % (
                len(ro), n_out_calls), 'outputs-count')
        if pb.original_recording.id != rid:
            raise Violation('Playback.original_recording is %r, played %r' % (pb.original_recording.id, rid), 'playback')
    finally:
        if cls is not None:
            PS.forget_class(cls)
        z.__exit__(None, None, None)
    shapes, n_in, n_out = PS.shape_classes(prog)
    with_args = any(s['t'] == 'in' and prog['ins'][s['i']]['kind'] != 'property' for s in PS.iter_steps(prog['steps']))
    nt = (n_in + n_out >= 2 and with_args and n_out >= 1) or bool(
        shapes & {'in-handler', 'out-handler', 'resolver', 'capture-subset', 'nested', 'threads', 'in-raises', 'swallowed-interrupt',
                  'out-raises', 'alias>9calls'})
    if (prog.get('params') or {}).get('copy_data_on_intercepion'):
        shapes.add('copy-on-interception')
    if any(d.get('run_missing') or d.get('value_missing') for d in prog['ins']) or any(
            d.get('fail_missing') is False for d in prog['outs']):
        shapes.add('missing-entry-policies')
    if any(s_['t'] == 'nested_op' and s_.get('skipped') for s_ in prog['steps']):
        shapes.add('calls-operation-of-skipped-class')
    if any(d.get('fallback') for d in prog['ins']):
        shapes.add('fallback-aliases')
        live = set(d['alias'] for d in prog['ins'])
        if any(set(d['fallback']['aliases']) & (live - {d['alias']}) for d in prog['ins'] if d.get('fallback')):
            shapes.add('fallback-is-live-alias-of-other-input')
    ctx.case(case, nt, classes=tuple('shape:' + s for s in sorted(shapes)) + (
        'cassette:' + cassette, 'style:' + style, 'family:' + case.get('family', '?'),
        'prior:' + str(case.get('prior'))))


@st.composite
def with_fallbacks(draw, progs):
    """Fallback aliases are a replay-time policy for entries that are missing; on unchanged code every call has its own
    entry, so they must not change anything - also when a fallback alias is the live alias of another input of the same
    operation (a legacy source kept next to its replacement) that was called with the same arguments."""
    prog = draw(progs)
    ins = prog['ins']
    # so are the other replay-time policies for missing entries: run the original, a substitute value, and for outputs
    # "do not fail, use the default" - whatever the recorded calls returned or raised (a recorded KeyError / LookupError
    # is a recorded outcome, not a missing entry)
    if draw(st.booleans()):
        for d in ins:
            how = draw(st.sampled_from(['none', 'run', 'value', 'both']))
            if how in ('run', 'both'):
                d['run_missing'] = True
            if how in ('value', 'both'):
                d['value_missing'] = {'kind': 'value', 'v': 'SUBSTITUTE'}
        for d in prog['outs']:
            if draw(st.booleans()):
                d['fail_missing'] = False
                d['default'] = 'DEFAULT'
        for s_ in PS.iter_steps(prog['steps']):
            if s_['t'] in ('in', 'out') and s_.get('beh') == 'raise' and draw(st.booleans()):
                s_['exc'] = draw(st.sampled_from(['KeyError', 'LookupError']))
    # the operation uses a helper operation of a class configured as skipped (plain code while recording and replaying)
    if draw(st.sampled_from([False, False, True])):
        prog['steps'].insert(draw(st.integers(0, len(prog['steps']))),
                             {'t': 'nested_op', 'inner': draw(st.sampled_from(['ret', 'ret', 'raise'])), 'skipped': True})
    if not ins or not draw(st.booleans()):
        return PS.assign_sids(prog)
    pool = ['legacy', 'in.n1', 'cfg.n2']
    for d in ins:
        pool.append(d['alias'])
        if d.get('resolver'):
            pool += [d['alias'] + '.n1', d['alias'] + '.n2']
    for d in ins:
        if draw(st.booleans()):
            d['fallback'] = {'kind': draw(st.sampled_from(['list', 'fn'])),
                             'aliases': draw(st.lists(st.sampled_from(pool), min_size=1, max_size=2))}
    # a renamed input kept next to its legacy source: the new input lists the legacy alias as fallback, and the operation
    # reads the legacy one first and then the new one with the same arguments (each has its own recorded value)
    plain = [k for k, d in enumerate(ins) if not d.get('resolver') and d['kind'] != 'property']
    if plain and len(ins) < 4 and draw(st.sampled_from([False, True])):
        k = draw(st.sampled_from(plain))
        new_decl = copy.deepcopy(ins[k])
        new_decl['alias'] = ins[k]['alias'] + '.renamed'
        if not any(d['alias'] == new_decl['alias'] for d in ins):
            new_decl['fallback'] = {'kind': draw(st.sampled_from(['list', 'fn'])), 'aliases': [ins[k]['alias']]}
            ins.append(new_decl)
            base = dict(t='in', a=7, b=8, usekw=False, beh='ret', name='n1', exc='Err')
            pos = draw(st.integers(0, len(prog['steps'])))
            prog['steps'].insert(pos, dict(base, i=len(ins) - 1, ret='NEW SOURCE'))
            prog['steps'].insert(pos, dict(base, i=k, ret='LEGACY SOURCE'))
    # the same call made through another input (same arguments, other alias), before or after the original
    calls = [s for s in prog['steps'] if s['t'] == 'in']
    for _ in range(draw(st.integers(0, 2))):
        if not calls or len(ins) < 2:
            break
        s = copy.deepcopy(draw(st.sampled_from(calls)))
        j = draw(st.integers(0, len(ins) - 1))
        if (ins[j]['kind'] == 'property') != (ins[s['i']]['kind'] == 'property'):
            continue
        s['i'] = j
        s['ret'] = draw(st.integers(100, 105))
        prog['steps'].insert(draw(st.integers(0, len(prog['steps']))), s)
    return PS.assign_sids(prog)


def cases():
    def fam(name, values):
        params = st.sampled_from([None, None, {'copy_data_on_intercepion': True}, {'copy_data_on_intercepion': True},
                                  {'sampling_rate': 1.5}, {'ignore_enforced_sampling': True}])
        return st.fixed_dictionaries({'prog': with_fallbacks(PS.programs(values=values, params=params, swallowed_interrupts=True,
                                                                           ending_excs=V.ENDING_EXCS)),
                                      'cassette': st.sampled_from(CASSETTES),
                                      'style': st.sampled_from(['direct', 'metadata-class']), 'family': st.just(name),
                                      'prior': st.sampled_from([None, None, None, ['record'], ['record', 'play']])})
    return st.one_of(fam('objects', V.small_values), fam('objects', V.small_values),
                     fam('aliasing', V.aliasing_values()), fam('ints', st.integers(0, 5)))


def replay(ctx, case):
    check_roundtrip(ctx, case)


def run(ctx):
    hyp_search(ctx, cases(), lambda c: check_roundtrip(ctx, c), ctx.pick(300, 4000), label="roundtrip")
    ctx.extra['value_filter'] = dict(V.STATS)
