"""C15 - S3 cassette writes are confined: read-only, own prefix, complete-before-visible."""
from hypothesis import strategies as st
from hypothesis.stateful import rule, initialize, precondition

from pbt import fakes3, zoo
from pbt.runner import Violation, run_machine
from pbt.stateful import HistoryMachine, replay_history

LEVEL = 'fault_enumeration'
SHARDS = {'quick': 2, 'thorough': 16}
RULE = ('State machine over 2-4 real S3TapeCassette instances on one fake bucket, configurations drawn from '
        '{read_only} x {transient} x key prefixes {"", "a", "ab", "a/b"} (string prefixes of one another) x '
        'infrequent-access threshold {none, 0, below, above the recording size}, bucket '
        'pre-populated with foreign objects; rules: create+save, save of a recording created by another cassette, get, '
        'list, close, context-manager exit, re-save of a stored recording, and save-with-crash where the fake bucket raises '
        'after the k-th mutation (k = 1, 2: every mutation of a save) either as a BaseException (the process dies) or as an '
        'ordinary exception (the write was applied, the response was lost). Oracle over the bucket mutation log and before/after contents: a '
        'read-only cassette causes no mutation; every mutation of a writable cassette has a key under '
        'tape_recorder_recordings/<its normalised prefix>{full,metadata}/; close of a writable transient cassette '
        'removes exactly the keys under its own full/ and metadata/ and any other close changes nothing; after every '
        'step (including each crash point) every id that a fresh cassette on each prefix can list is fetchable by '
        'get_recording and get_recording_metadata. Non-trivial: history with >= 2 cassettes whose prefixes are in '
        'string-prefix relation and a close of a transient one after saves, or a crash between the writes of a save, '
        'or a write attempt on a read-only cassette. Distinct = distinct history up to that step.')
ASSUMPTIONS = ['fake bucket implements put/get/list-by-prefix/delete-by-prefix with the semantics the facade relies on',
               'prefixes that name the cassette\'s own sub-folders ("full", "metadata") are not used',
               'crash = BaseException raised by the bucket right after a mutation was applied']

PREFIXES = ['', 'a', 'ab', 'a/b']
CATS = ['A', 'AB']
ROOT = 'tape_recorder_recordings/'
FOREIGN = {
    'other/thing': b'x',
    'tape_recorder_recordings_x/full/1': b'x',
    'tape_recorder_recordings/zz/full/A/20260101/abc': b'x',
    'tape_recorder_recordings/zz/metadata/A/20260101/abc': b'{}',
    'tape_recorder_recordings/afull/x': b'x',
    'tape_recorder_recordings/abmetadata/x': b'x',
    # names that only EXTEND a cassette's own folder names (no separator after "full" / "metadata")
    'tape_recorder_recordings/full_export.bin': b'x',
    'tape_recorder_recordings/metadata.json': b'{}',
    'tape_recorder_recordings/a/full_export.bin': b'x',
    'tape_recorder_recordings/a/metadata.json': b'{}',
    'tape_recorder_recordings/a/b/fullstack/full/A/20260101/abc': b'x',
    'tape_recorder_recordings/ab/metadata-service/metadata/A/20260101/abc': b'{}',
}


def own_roots(prefix):
    p = (prefix + '/') if prefix else ''
    return (ROOT + p + 'full/', ROOT + p + 'metadata/')


class Interp(object):
    def __init__(self, ctx):
        self.ctx = ctx
        self.fake = fakes3.install()
        self.fake.bucket(zoo.BUCKET).update(dict((k, (v, self.fake.now(), {})) for k, v in FOREIGN.items()))
        self.cfgs = []
        self.cas = []
        self.history = []
        self.recs = []    # recordings created (by writable cassettes): (cassette index, recording)
        self.flags = set()

    def close(self):
        fakes3.CLOCK.now = None

    def apply(self, op):
        self.history.append(op)
        getattr(self, 'op_' + op['op'])(op)
        self.check_discoverable(op)
        self.account(op)

    def op_init(self, op):
        from playback.tape_cassettes.s3.s3_tape_cassette import S3TapeCassette
        for cfg in op['configs']:
            prefix, ro, tr = cfg[:3]
            ia = cfg[3] if len(cfg) > 3 else None    # infrequent-access threshold in KB (None = never)
            self.cfgs.append((prefix, ro, tr))
            self.cas.append(S3TapeCassette(zoo.BUCKET, key_prefix=prefix, read_only=ro, transient=tr,
                                           infrequent_access_kb_threshold=ia))
            if ia is not None:
                self.flags.add('infrequent-access-threshold')
        ps = sorted(set(c[0] for c in self.cfgs))
        if any(a != b and b.startswith(a) for a in ps for b in ps):
            self.flags.add('prefix-related')

    # -- helpers
    def _call(self, i, fn, allow=(AssertionError,)):
        """Run fn as cassette i; returns (result, raised, mutations, before, after)."""
        before = self.fake.contents(zoo.BUCKET)
        n0 = len(self.fake.log)
        self.fake.actor = i
        raised = None
        result = None
        try:
            result = fn()
        except allow as e:
            raised = e
        except (fakes3.BucketCrash, fakes3.LostResponse, fakes3.Rejected) as e:
            raised = e
        finally:
            self.fake.actor = None
            self.fake.crash_after = None
            self.fake.reject_puts = 0
        muts = self.fake.log[n0:]
        after = self.fake.contents(zoo.BUCKET)
        self.check_confined(i, muts)
        return result, raised, muts, before, after

    def check_confined(self, i, muts):
        prefix, ro, tr = self.cfgs[i]
        if ro and muts:
            raise Violation('read-only cassette (prefix %r) mutated the bucket: %r' % (prefix, muts[:4]), 'read-only')
        roots = own_roots(prefix)
        for m in muts:
            if not m[2].startswith(roots):
                raise Violation('cassette with prefix %r touched key %r outside its own prefix (%s %s)' % (
                    prefix, m[2], m[0], m[2]), 'own-prefix')

    def _i(self, n):
        return n % len(self.cas)

    def op_save(self, op):
        i = self._i(op['cas'])
        cas = self.cas[i]
        prefix, ro, tr = self.cfgs[i]

        def fn():
            rec = cas.create_new_recording(op['cat'])
            rec.set_data('k', op['v'])
            rec.add_metadata({'m': op['v']})
            self.recs.append((i, rec))
            if op.get('crash') and op.get('crash_kind') == 'rejected':
                # a burst of refused writes (throttling): the next op['crash'] puts are not applied and raise
                self.fake.reject_puts = op['crash']
            elif op.get('crash'):
                self.fake.crash_after = op['crash']
                self.fake.crash_kind = op.get('crash_kind', 'crash')
            cas.save_recording(rec)
            return rec

        res, raised, muts, before, after = self._call(i, fn)
        if ro:
            self.flags.add('write-attempt-on-read-only')
            if raised is None:
                raise Violation('read-only cassette accepted create/save without raising', 'read-only')
        elif op.get('crash'):
            if isinstance(raised, (fakes3.BucketCrash, fakes3.LostResponse, fakes3.Rejected)) or \
                    op.get('crash_kind') == 'rejected':
                self.flags.add('crash-mid-save:%d' % op['crash'])
                self.flags.add('crash-kind:' + op.get('crash_kind', 'crash'))
        elif raised is not None:
            raise Violation('writable cassette raised on save: %r' % (raised,), 'save-raises')
        else:
            self.flags.add('saved')
        for m in muts:
            obj = self.fake.bucket(zoo.BUCKET).get(m[2])
            if m[0] == 'put' and obj is not None and obj[2].get('StorageClass') == 'STANDARD_IA':
                self.flags.add('stored-as-infrequent-access')

    def op_save_foreign(self, op):
        """Save, through cassette i, a recording object created by another (writable) cassette."""
        if not self.recs:
            return
        i = self._i(op['cas'])
        _, rec = self.recs[op['n'] % len(self.recs)]
        from playback.recordings.memory.memory_recording import MemoryRecording
        clone = MemoryRecording(rec.id, dict(rec.recording_data), dict(rec.recording_metadata))
        res, raised, muts, before, after = self._call(i, lambda: self.cas[i].save_recording(clone))
        if self.cfgs[i][1]:
            self.flags.add('write-attempt-on-read-only')
            if raised is None:
                raise Violation('read-only cassette accepted save_recording without raising', 'read-only')

    def op_resave(self, op):
        i = self._i(op['cas'])
        owners = [(j, r) for j, r in self.recs if j == i]
        if not owners or self.cfgs[i][1]:
            return
        _, rec = owners[op['n'] % len(owners)]
        from playback.recordings.memory.memory_recording import MemoryRecording
        clone = MemoryRecording(rec.id, dict(rec.recording_data), dict(rec.recording_metadata))
        clone.add_metadata({'annotated': op['n']})

        def fn():
            if op.get('crash'):
                self.fake.crash_after = op['crash']
                self.fake.crash_kind = op.get('crash_kind', 'crash')
            self.cas[i].save_recording(clone)

        res, raised, muts, before, after = self._call(i, fn)
        if raised is not None and op.get('crash'):
            self.flags.add('crash-mid-resave')
            self.flags.add('crash-kind:' + op.get('crash_kind', 'crash'))

    def op_get(self, op):
        if not self.recs:
            return
        i = self._i(op['cas'])
        _, rec = self.recs[op['n'] % len(self.recs)]
        from playback.exceptions import NoSuchRecording
        self._call(i, lambda: self.cas[i].get_recording(rec.id), allow=(NoSuchRecording,))
        self._call(i, lambda: self.cas[i].get_recording_metadata(rec.id), allow=(NoSuchRecording,))

    def op_list(self, op):
        i = self._i(op['cas'])
        self._call(i, lambda: list(self.cas[i].iter_recording_ids(op['cat'], limit=op.get('limit'))))

    def op_close(self, op):
        i = self._i(op['cas'])
        prefix, ro, tr = self.cfgs[i]
        cas = self.cas[i]
        if op.get('via') == 'with':
            def fn():
                with cas:
                    pass
        else:
            fn = cas.close
        res, raised, muts, before, after = self._call(i, fn)
        if raised is not None:
            raise Violation('close raised %r' % (raised,), 'close-raises')
        if not ro and tr:
            roots = own_roots(prefix)
            want = dict((k, v) for k, v in before.items() if not k.startswith(roots))
            if after != want:
                left = sorted(k for k in after if k.startswith(roots))
                lost = sorted(k for k in want if k not in after)
                raise Violation('close of writable transient cassette (prefix %r): own keys left behind %r, foreign '
                                'keys removed %r' % (prefix, left[:4], lost[:4]), 'transient-close')
            if 'saved' in self.flags and len(before) != len(after):
                self.flags.add('transient-close-removed')
        elif after != before:
            raise Violation('close of a %s cassette (prefix %r) changed the bucket: %r' % (
                'read-only' if ro else 'non-transient', prefix, muts[:4]), 'close-changes')

    def check_discoverable(self, op):
        """Every recording that lookup can discover (fresh cassette per prefix) is completely fetchable."""
        from playback.tape_cassettes.s3.s3_tape_cassette import S3TapeCassette
        for prefix in sorted(set(c[0] for c in self.cfgs)):
            fresh = S3TapeCassette(zoo.BUCKET, key_prefix=prefix, read_only=True)
            n0 = len(self.fake.log)
            for cat in CATS:
                for rid in list(fresh.iter_recording_ids(cat)):
                    try:
                        r = fresh.get_recording(rid)
                        md = fresh.get_recording_metadata(rid)
                        r.get_data('k')
                    except Exception as e:  # pylint: disable=broad-except
                        raise Violation('after %r: recording %r is discoverable under prefix %r but not fetchable: '
                                        '%s %s' % (op, rid, prefix, type(e).__name__, e), 'complete-before-visible')
                    # (agreement of the two metadata copies is C07's matter; half-way through a RE-save of an existing
                    # id they legitimately differ - old discoverable metadata, new full object - and both are fetchable)
            if len(self.fake.log) != n0:
                raise Violation('read-only cassette mutated the bucket while listing/fetching', 'read-only')

    def account(self, op):
        nt = ('prefix-related' in self.flags and 'transient-close-removed' in self.flags) or \
             any(f.startswith('crash-mid-save') for f in self.flags) or 'write-attempt-on-read-only' in self.flags
        self.ctx.case(self.history, nt and op['op'] != 'init', classes=('op:%s' % op['op'],) + tuple(
            'flag:' + f for f in sorted(self.flags) if op['op'] in ('close', 'save')))


IA_THRESHOLDS = [None, None, 0, 0.01, 50]   # KB; the recordings of this check compress to 30-60 bytes
configs = st.lists(st.tuples(st.sampled_from(PREFIXES), st.booleans(), st.booleans(), st.sampled_from(IA_THRESHOLDS)),
                   min_size=2, max_size=4).map(
    lambda l: [list(t) for t in l])


def make_machine(ctx):
    class Machine(HistoryMachine):
        def make_interp(self):
            return Interp(ctx)

        @initialize(cfgs=configs)
        def init(self, cfgs):
            self.step({'op': 'init', 'configs': cfgs})

        @rule(cas=st.integers(0, 3), cat=st.sampled_from(CATS), v=st.integers(0, 3))
        def save(self, cas, cat, v):
            self.step({'op': 'save', 'cas': cas, 'cat': cat, 'v': v})

        @rule(cas=st.integers(0, 3), cat=st.sampled_from(CATS), v=st.integers(0, 3), k=st.sampled_from([1, 2]),
              kind=st.sampled_from(['crash', 'lost']))
        def save_crash(self, cas, cat, v, k, kind):
            self.step({'op': 'save', 'cas': cas, 'cat': cat, 'v': v, 'crash': k, 'crash_kind': kind})

        @rule(cas=st.integers(0, 3), cat=st.sampled_from(CATS), v=st.integers(0, 3), k=st.sampled_from([1, 2, 3, 4, 6]))
        def save_rejected(self, cas, cat, v, k):
            self.step({'op': 'save', 'cas': cas, 'cat': cat, 'v': v, 'crash': k, 'crash_kind': 'rejected'})

        @precondition(lambda self: self.interp.recs)
        @rule(cas=st.integers(0, 3), n=st.integers(0, 20), k=st.sampled_from([0, 1, 2]), kind=st.sampled_from(['crash', 'lost']))
        def resave(self, cas, n, k, kind):
            """Save an already stored recording again (annotated), optionally with a crash point."""
            self.step({'op': 'resave', 'cas': cas, 'n': n, 'crash': k, 'crash_kind': kind})

        @rule(cas=st.integers(0, 3), n=st.integers(0, 20))
        def save_foreign(self, cas, n):
            self.step({'op': 'save_foreign', 'cas': cas, 'n': n})

        @rule(cas=st.integers(0, 3), n=st.integers(0, 20))
        def get(self, cas, n):
            self.step({'op': 'get', 'cas': cas, 'n': n})

        @rule(cas=st.integers(0, 3), cat=st.sampled_from(CATS), limit=st.one_of(st.none(), st.integers(1, 3)))
        def list_(self, cas, cat, limit):
            self.step({'op': 'list', 'cas': cas, 'cat': cat, 'limit': limit})

        @rule(cas=st.integers(0, 3), via=st.sampled_from(['close', 'with']))
        def close(self, cas, via):
            self.step({'op': 'close', 'cas': cas, 'via': via})

    return Machine


def replay(ctx, case):
    replay_history(Interp(ctx), case)


def crash_enumeration(ctx):
    """Deterministic sweep: for every configuration of a writable cassette and every mutation index of a save."""
    for prefix in PREFIXES:
        for tr, ia in ((False, None), (True, None), (False, 0), (True, 0.01), (False, 50)):
            for k, kind in ((1, 'crash'), (2, 'crash'), (3, 'crash'), (1, 'lost'), (2, 'lost')):
                hist = [{'op': 'init', 'configs': [[prefix, False, tr, ia], [prefix, True, False, None]]},
                        {'op': 'save', 'cas': 0, 'cat': 'A', 'v': 1},
                        {'op': 'save', 'cas': 0, 'cat': 'A', 'v': 2, 'crash': k, 'crash_kind': kind},
                        {'op': 'list', 'cas': 1, 'cat': 'A', 'limit': None},
                        {'op': 'resave', 'cas': 0, 'n': 0, 'crash': k, 'crash_kind': kind},
                        {'op': 'save', 'cas': 0, 'cat': 'AB', 'v': 3, 'crash': k, 'crash_kind': kind},
                        {'op': 'close', 'cas': 0, 'via': 'close'}]
                from pbt.runner import guarded
                guarded(ctx, hist, lambda h: replay_history(Interp(ctx), h))
                ctx.count('crash-sweep')


def run(ctx):
    if ctx.shard == 0:
        crash_enumeration(ctx)
    if not ctx.violations:
        run_machine(ctx, make_machine(ctx), ctx.pick(150, 600), ctx.pick(20, 30), label='machine')
