"""C02 - replay answers every interception from the recording or an explicit policy."""
import copy

from hypothesis import strategies as st

from pbt import progsim as PS, values as V, zoo
from pbt.runner import Violation, hyp_search
from props.C01 import outputs_map, same
from props.C03 import norm

LEVEL = 'exploration'
SHARDS = {'quick': 8, 'thorough': 16}
RULE = ('Pairs (recorded program P, replayed program P\'): P\' is derived from P by renaming input aliases (with fallback '
        'alias lists / functions that do or do not contain the old alias; the recording may hold entries under the new alias '
        'AND the old one), changing call arguments, dropping calls and '
        'adding new input calls and output calls beyond the recorded ones; every input declaration of P\' draws '
        'run_intercepted_when_missing in {F,T} and value_when_missing in {unset, None, 0, 0.0, "", [], {}, False, '
        'truthy, callable}; every output declaration draws fail_on_no_recorded_result in {T,F} and a default in '
        '{None, 0, "", tuple}; replay runs 1-3 times with recording enabled or disabled, over in-memory/file/S3 spy '
        'cassettes. Oracle: reference model of the documented order (recorded main key -> first present fallback key -> '
        'run original (exactly once; interceptions made by that original body are themselves answered from the recording) -> substitute (callable is called) -> RecordingKeyError; outputs: recorded result '
        '-> error if failing is on -> default) evaluated per call site; wrapped bodies run in replay exactly for the '
        'run-original cases; the spy cassette sees no create/save/abort during play(); the serialised store is '
        'unchanged; repeated replays give equal playback outputs. Non-trivial: >= 1 requested key absent from the '
        'recording. Distinct = distinct case; evidence counts the option combinations hit.')
ASSUMPTIONS = ['fallback_aliases is a list or a function (documented types)',
               'value_when_missing=None means "not configured" (it is the default)',
               'replayed declarations keep kind and capture selection of the recorded ones']

JUNK = 'no-such-alias'
FRESH = ['FRESH-ARG']


def kw_style(prog, s):
    d = prog['ins'][s['i']]
    return d['kind'], bool(s.get('usekw'))


class Model(object):
    """What the recording of P holds, from the harness journal of the live run."""

    def __init__(self, P, W):
        self.inputs = {}
        self.outputs = {}
        counts = {}
        for s in PS.iter_steps(P['steps']):
            site = W.sites.get(s['sid'])
            if site is None:
                continue
            if s['t'] == 'in':
                self.inputs[PS.model_key(P, s)] = site
            elif s['t'] == 'out':
                a = P['outs'][s['i']]['alias']
                counts[a] = counts.get(a, 0) + 1
                self.outputs[(a, counts[a])] = site


def predict(P2, model):
    """Expected outcome per call site of P2, stopping at the first missing-key error.
    Returns (sites: sid -> ('v', value) | ('e', type name), bodies: [sid], stopped: bool, absent: int, combos)"""
    sites, bodies, combos = {}, [], []
    counts = {}
    absent = 0
    for s in P2['steps']:
        if s['t'] == 'in':
            d = P2['ins'][s['i']]
            k = PS.model_key(P2, s)
            found = model.inputs.get(k)
            via = 'main'
            if found is not None and d.get('fallback') and any(((fa,) + tuple(k[1:])) in model.inputs
                                                                for fa in d['fallback']['aliases']):
                combos.append('main-and-fallback-both-present')
            if found is None:
                absent += 1
                fb = d.get('fallback')
                via = None
                for fa in (fb['aliases'] if fb else []):
                    kk = (fa,) + tuple(k[1:])
                    if kk in model.inputs:
                        found, via = model.inputs[kk], 'fallback'
                        break
                vm = d.get('value_missing') or {'kind': 'unset'}
                vm_set = vm['kind'] == 'callable' or (vm['kind'] == 'value' and vm['v'] is not None)
                combos.append('fb=%s/%s run=%s sub=%s' % (
                    fb['kind'] if fb else 'none', 'present' if via else 'absent',
                    'nested' if d.get('run_missing') and s['beh'] == 'nested' else bool(d.get('run_missing')),
                    vm['kind'] + (':falsy' if vm['kind'] == 'value' and not V.build(vm['v']) else '')))
                if found is None:
                    if d.get('run_missing'):
                        bodies.append(s['sid'])
                        if s['beh'] == 'nested':
                            # the original body itself calls another intercepted input of the service: that inner call
                            # is an ordinary interception of the replay (answered from the recording)
                            d0 = P2['ins'][0]
                            inner = {'t': 'in', 'i': 0, 'a': 1, 'b': 2, 'usekw': False, 'name': 'n1',
                                     'sid': s['sid'] + '.inner'}
                            if d0['kind'] == 'property':
                                inner['a'], inner['b'] = None, None
                            ik = PS.model_key(P2, inner)
                            if ik not in model.inputs:
                                return None
                            if model.inputs[ik][0] == 'e':
                                # the inner call replays a recorded exception, which leaves the original body
                                sites[s['sid']] = ('e', type(model.inputs[ik][1]).__name__)
                                continue
                        if s['beh'] == 'raise':
                            sites[s['sid']] = ('e', V.ERRS[s.get('exc', 'Err')].__name__)
                        else:
                            sites[s['sid']] = ('v', [PS.POISON, V.build(s['ret'])])
                        continue
                    if vm_set:
                        if vm['kind'] == 'callable':
                            kind = P2['ins'][s['i']]['kind']
                            style = 'both' if s.get('usekw') == 'both' else ('kw' if s.get('usekw') else 'pos')
                            if kind == 'property':
                                npos, kws = 1, []
                            else:
                                npos = {'pos': 2, 'kw': 1, 'both': 0}[style] + (1 if kind == 'instance' else 0)
                                kws = {'pos': [], 'kw': ['b'], 'both': ['a', 'b']}[style]
                            sites[s['sid']] = ('v', ['SUBSTITUTE-CALLED', V.build(vm['v']), npos, kws])
                        else:
                            sites[s['sid']] = ('v', V.build(vm['v']))
                        continue
                    sites[s['sid']] = ('e', 'RecordingKeyError')
                    return sites, bodies, True, absent, combos
            if found[0] == 'v':
                sites[s['sid']] = ('v', found[1])
            else:
                sites[s['sid']] = ('e', type(found[1]).__name__)
        elif s['t'] == 'out':
            d = P2['outs'][s['i']]
            counts[d['alias']] = counts.get(d['alias'], 0) + 1
            found = model.outputs.get((d['alias'], counts[d['alias']]))
            if found is None:
                absent += 1
                combos.append('out fail=%s default=%r' % (d.get('fail_missing', True), d.get('default')))
                if d.get('fail_missing', True):
                    sites[s['sid']] = ('e', 'RecordingKeyError')
                    return sites, bodies, True, absent, combos
                sites[s['sid']] = ('v', V.build(d.get('default')))
            elif found[0] == 'v':
                sites[s['sid']] = ('v', found[1])
            else:
                sites[s['sid']] = ('e', type(found[1]).__name__)
    return sites, bodies, False, absent, combos


def check_pair(ctx, case):
    from playback.tape_recorder import TapeRecorder
    from playback.exceptions import RecordingKeyError
    P = PS.assign_sids(PS.normalise_inputs(copy.deepcopy(case['P'])))
    P2 = PS.assign_sids(copy.deepcopy(case['P2']))
    for s in P2['steps']:
        s['reraise_framework'] = True
    classes = []
    with zoo.Zoo(kinds=(case['cassette'],), spy=True) as z:
        cas = z.cassettes[0]
        try:
            rec = TapeRecorder(cas)
            rec.enable_recording()
            W = PS.World('LIVE')
            cls = PS.build_class(P, rec, W)
            classes.append(cls)
            live = PS.execute(cls, P)
            if live[0] != 'ret':
                raise Violation('recorded operation did not return: %r' % (live,), 'live')
            rid = W.recording_ids[-1]
            model = Model(P, W)
            pred = predict(P2, model)
            if pred is None:
                ctx.exclude('nested run-original whose inner call is not answered by the recording (not modelled)')
                return
            want_sites, want_bodies, stopped, absent, combos = pred
            if not case['enabled']:
                rec.disable_recording()
            prev_outputs = None
            for n in range(case['replays']):
                W2 = PS.World('REPLAY')
                cls2 = PS.build_class(P2, rec, W2)
                classes.append(cls2)
                del cas.spy_log[:]
                before = z.snapshot(cas)
                res = {}

                def playback_function(recording):
                    res['r'] = PS.execute(cls2, P2)
                    if res['r'][0] != 'ret':
                        raise res['r'][2]

                raised = None
                try:
                    pb = rec.play(rid, playback_function)
                except RecordingKeyError as e:
                    raised, pb = e, None
                except Exception as e:  # pylint: disable=broad-except
                    raise Violation('play() raised %s: %s' % (type(e).__name__, e), 'replay-raises')
                if stopped and raised is None:
                    raise Violation('a call had no entry in the recording and no policy applies, but play() did not '
                                    'raise a missing-key error; call sites: %r' % (
                                        dict((k, v) for k, v in W2.sites.items()),), 'missing-key-error')
                if raised is not None and not stopped:
                    raise Violation('play() raised a missing-key error although every call is answered by the '
                                    'recording or a policy: %s' % (raised,), 'policy')
                # per call site
                if set(W2.sites) != set(want_sites):
                    raise Violation('replayed calls %r, expected %r' % (sorted(W2.sites), sorted(want_sites)), 'calls')
                for sid, want in want_sites.items():
                    got = W2.sites[sid]
                    if want[0] == 'v':
                        if got[0] != 'v' or not same(got[1], want[1]):
                            raise Violation('call %s: expected value %r by the documented policy, got %s %r' % (
                                sid, want[1], got[0], got[1]), 'policy')
                    elif got[0] != 'e' or type(got[1]).__name__ != want[1]:
                        raise Violation('call %s: expected %s by the documented policy, got %s %r' % (
                            sid, want[1], got[0], got[1]), 'policy')
                # bodies executed in replay = exactly the run-original cases, once each
                ran = [j[4] for j in W2.journal if j[0] == 'body']
                if sorted(ran) != sorted(want_bodies):
                    raise Violation('wrapped bodies executed during replay: %r, expected exactly %r' % (
                        ran, want_bodies), 'bodies')
                if cas.spy_log:
                    raise Violation('cassette was touched during play(): %r (recording %s)' % (
                        cas.spy_log, 'enabled' if case['enabled'] else 'disabled'), 'cassette-touched')
                if z.snapshot(cas) != before:
                    raise Violation('serialised store changed during play()', 'store-changed')
                if pb is not None:
                    po = norm(outputs_map(pb.playback_outputs, 'playback_outputs'))
                    if prev_outputs is not None and po != prev_outputs:
                        raise Violation('repeated replays of one recording differ: %r vs %r' % (prev_outputs, po),
                                        'repeat')
                    prev_outputs = po
                if rec.in_playback_mode or rec.in_recording_mode:
                    raise Violation('recorder not idle after play()', 'idle')
        finally:
            for c in classes:
                PS.forget_class(c)
    ctx.case(case, absent > 0, classes=tuple(set('combo:' + c for c in combos)) + (
        ('out-handler-fails-in-replay',) if any(s_.get('hfail') for s_ in P2['steps']) else ()) + (
        'enabled' if case['enabled'] else 'disabled', 'replays:%d' % case['replays'], 'cassette:' + case['cassette'],
        'stops-with-key-error' if stopped else 'completes'))


# ---- generator

SUBS = [{'kind': 'unset'}, {'kind': 'value', 'v': None}, {'kind': 'value', 'v': 0}, {'kind': 'value', 'v': 0.0},
        {'kind': 'value', 'v': ''}, {'kind': 'value', 'v': []}, {'kind': 'value', 'v': {'t': 'dict', 'v': []}},
        {'kind': 'value', 'v': False}, {'kind': 'value', 'v': 7}, {'kind': 'value', 'v': ['x', 1]},
        {'kind': 'callable', 'v': 5}, {'kind': 'callable', 'v': 0}]
DEFAULTS = [None, 0, '', {'t': 'tuple', 'v': [1, 2]}, False]
LONG_ALIASES = [u'\u0434\u0430\u043d\u043d\u044b\u0435' * 50, u'x' + u'\u0434\u0430\u043d\u043d\u044b\u0435' * 50,
                u'\u4e2d\u6587' * 120, u'ab' + u'\u4e2d\u6587' * 120]


@st.composite
def pairs(draw):
    vals = st.one_of(st.integers(0, 3), V.small_values)
    ins, outs = PS.fix_decls(draw(st.lists(PS.input_decls(), min_size=1, max_size=3)),
                             draw(st.lists(PS.output_decls(), max_size=2)))
    # long non-ASCII aliases: the text of a missing-key error then runs to several hundred bytes of multi-byte characters
    if draw(st.sampled_from([False, False, False, True])):
        taken = set(d['alias'] for d in ins)
        long_alias = draw(st.sampled_from(LONG_ALIASES))
        if long_alias not in taken:
            ins[draw(st.integers(0, len(ins) - 1))]['alias'] = long_alias
    steps = draw(PS.step_lists(ins, outs, vals, 7, ('ret', 'ret', 'raise'), ('ret', 'ret', 'raise'), threads=False))
    steps = [s for s in steps]
    # "twin" declarations: the recorded program already calls an input under the NEW alias as well (both the old and the
    # renamed input were live when it was recorded), with the same arguments but its own values - so that main key and
    # fallback key of a replayed call can both be present in the recording
    new_alias = {}
    for i, d in enumerate(list(ins)):
        if len(ins) < 4 and not d.get('resolver') and draw(st.booleans()):
            na = draw(st.sampled_from([d['alias'] + '.v2', '0.' + d['alias']]))
            if any(x['alias'] == na for x in ins):
                continue
            twin = dict(d, alias=na)
            ins.append(twin)
            new_alias[i] = na
            for s_ in [x for x in steps if x['t'] == 'in' and x['i'] == i]:
                if draw(st.booleans()):
                    t_ = copy.deepcopy(s_)
                    t_['i'] = len(ins) - 1
                    t_['ret'] = ['TWIN', draw(st.integers(0, 9))]
                    t_['beh'] = 'ret'
                    steps.insert(draw(st.integers(0, len(steps))), t_)
    # anchor: the recorded program calls input 0 with the arguments that a nested inner call will use (see progsim)
    anchored = draw(st.booleans())
    if anchored:
        d0 = ins[0]
        steps.append(dict(t='in', i=0, a=None if d0['kind'] == 'property' else 1, b=None if d0['kind'] == 'property' else 2,
                          usekw=False, beh='ret', ret=['ANCHOR'], name='n1', exc='Err'))
    # calls whose argument is 0 / 1: the replayed program may ask with False / True / 0.0 / 1.0 instead, which are
    # other calls (equal in Python, different values)
    typed = [i for i, d in enumerate(ins) if d['kind'] != 'property' and d.get('capture', 'all') in ('all', 'pos1', 'pos1_name_b')]
    if typed and draw(st.booleans()):
        steps.append(dict(t='in', i=draw(st.sampled_from(typed)), a=draw(st.sampled_from([0, 1])), b=None, usekw=False,
                          beh='ret', ret=['TYPED', draw(st.integers(0, 9))], name='n1', exc='Err'))
    P = PS.assign_sids(dict(klass=draw(st.sampled_from(['instance', 'class'])), ins=ins, outs=outs, steps=steps,
                            ending='return', result=None, extractor='none'))
    P = PS.normalise_inputs(P)
    P2 = copy.deepcopy(P)
    for i, d in enumerate(P2['ins']):
        mode = draw(st.sampled_from(['keep', 'keep', 'rename']))
        old = d['alias']
        if i in new_alias:
            mode = 'rename'
        if mode == 'rename':
            d['alias'] = new_alias.get(i, old + '.v2')
            olds = [old + '.n1', old + '.n2'] if d.get('resolver') else [old]
            choice = draw(st.sampled_from(['none', 'old', 'junk+old', 'junk', 'old+junk']))
            if choice != 'none':
                aliases = {'old': olds, 'junk+old': [JUNK] + olds, 'junk': [JUNK], 'old+junk': olds + [JUNK]}[choice]
                d['fallback'] = {'kind': draw(st.sampled_from(['list', 'fn'])), 'aliases': aliases}
        elif draw(st.booleans()):
            d['fallback'] = {'kind': draw(st.sampled_from(['list', 'fn'])), 'aliases': [JUNK]}
        d['run_missing'] = draw(st.sampled_from([False, False, True]))
        d['value_missing'] = draw(st.sampled_from(SUBS))
    for d in P2['outs']:
        d['fail_missing'] = draw(st.booleans())
        d['default'] = draw(st.sampled_from(DEFAULTS))
    new_steps = []
    for s in P2['steps']:
        action = draw(st.sampled_from(['keep', 'keep', 'keep', 'change_a', 'drop']))
        if action == 'drop':
            continue
        if action == 'change_a' and s['t'] == 'in':
            s['a'] = FRESH + [draw(st.integers(0, 2))]
        if s['t'] == 'in' and type(s.get('a')) is int and s['a'] in (0, 1) and isinstance(s.get('ret'), list) and \
                s['ret'][:1] == ['TYPED'] and draw(st.booleans()):
            s['a'] = draw(st.sampled_from([bool(s['a']), float(s['a'])]))     # equal in Python, another value
        if s['t'] == 'out' and P2['outs'][s['i']].get('handler') == 'wrap' and draw(st.sampled_from([False, False, True])):
            # the output's data handler worked while recording and fails during the replay (a file it reads is gone):
            # the call is still answered from the recording and its body still does not run
            s['hfail'] = True
        new_steps.append(s)
    for _ in range(draw(st.integers(0, 3))):
        pos = draw(st.integers(0, len(new_steps)))
        if P2['outs'] and draw(st.booleans()):
            new_steps.insert(pos, draw(PS.out_step(P2['outs'], vals, behs=('ret',))))
        else:
            new = draw(PS.in_step(P2['ins'], vals, behs=('ret', 'ret', 'raise') + (('nested', 'nested') if anchored else ())))
            if draw(st.booleans()) or new['beh'] == 'nested':
                new['a'] = FRESH + [draw(st.integers(0, 2))]
            new_steps.insert(pos, new)
    P2['steps'] = new_steps
    P2 = PS.assign_sids(P2)
    return {'P': P, 'P2': P2, 'enabled': draw(st.booleans()), 'replays': draw(st.sampled_from([1, 1, 2, 3])),
            'cassette': draw(st.sampled_from(['memory', 'memory', 'file', 's3']))}


def replay(ctx, case):
    check_pair(ctx, case)


def run(ctx):
    hyp_search(ctx, pairs(), lambda c: check_pair(ctx, c), ctx.pick(400, 4000), label="pairs")
