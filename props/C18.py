"""C18 - recording metadata tells the truth about the run."""
import datetime

from hypothesis import strategies as st

from pbt import progsim as PS, faultrun as FR
from pbt.runner import Violation, hyp_search

LEVEL = 'fault_enumeration'
SHARDS = {'quick': 8, 'thorough': 16}
RULE = ('Hypothesis generates sequential programs (instance and class-level operations, also run on a subclass of the class that carries the recording parameters, handlers, sleeps of 0-3 ms, recording '
        'switched off / on again in the middle of the operation, a call of another decorated operation of the same recorder '
        'which is refused while a recording runs); the '
        'harness enumerates every termination mode at every step - return, ordinary exception, interrupt-style '
        'BaseException (a custom one, SystemExit with and without code 0, KeyboardInterrupt), raised by the operation between steps or inside an intercepted input/output body, incl. after '
        'outputs were captured - crossed with metadata extractors that succeed, raise or return junk (None, int, list), '
        'with slow save / slow extractor to separate the duration from later work, invoked from plain code or from inside '
        'an except block of the caller (ordinary and interrupt-style), on a fresh recorder or on one that recorded (and '
        'replayed) another operation before, on in-memory/file/S3 cassettes. '
        'Oracle (model from the harness journal, read back through the cassette): operation class is the program\'s '
        'class; 0 <= duration, harness-measured time inside the operation body <= duration <= time from just before the '
        'call to the moment save was invoked; timestamp parses and lies between the harness\' before/after UTC '
        'instants; incomplete <=> ended by the interrupt; for non-interrupted runs exception flag <=> ended by an '
        'ordinary exception; user keys = the extractor\'s dict (extractor called once, after the operation, with the '
        'operation\'s arguments) or none of them if it failed; the default skip-incomplete lookup lists the recording '
        'iff it is not incomplete. Non-trivial: termination at step >= 2 or inside an interception, or a failing '
        'extractor. Distinct = distinct (program, placement, cassette).')
ASSUMPTIONS = ['time.time()/utcnow() read by harness and recorder are the same non-decreasing clocks (2 ms tolerance)',
               'sampling rate 1 and no discards so that every run is saved']

T = __import__('playback.tape_recorder', fromlist=['TapeRecorder'])
KINDS = ('body_raise', 'body_interrupt', 'body_interrupt_swallowed', 'op_raise', 'op_interrupt', 'op_exit0', 'op_exit',
         'op_ctrl_c', 'extractor', 'body_force')
EPS = 0.002


def parse_ts(s):
    for fmt in ('%Y-%m-%d %H:%M:%S.%f', '%Y-%m-%d %H:%M:%S'):
        try:
            return datetime.datetime.strptime(s, fmt)
        except ValueError:
            pass
    return None


def check_case(ctx, case):
    from playback.tape_recorder import TapeRecorder as TR
    from playback.studio.recordings_lookup import find_matching_recording_ids, RecordingLookupProperties
    prog, flags = FR.apply_faults(case['prog'], case['faults'])
    flags['slow_save_ms'] = case.get('slow_save_ms', 0)
    flags['within_handler'] = case.get('within_handler')
    flags['prior'] = case.get('prior')
    flags['prior_same_class'] = case.get('prior_same_class')
    prog['extractor_sleep_ms'] = case.get('slow_extractor_ms', 0)
    if prog.get('extractor', 'none') == 'none' and case.get('extractor_ok'):
        prog['extractor'] = 'ok'
        prog['extractor_meta'] = [['user_key', 'user value'], ['n', 3]]
    eff = FR.model_effects(prog)
    what = 'faults=%r' % (case['faults'],)
    fr = FR.FaultRun(prog, flags, enabled=True, cassette=case.get('cassette', 'memory'))
    fr.rec.enable_recording()
    try:
        saves = [e for e in fr.spy_log if e[0] == 'save']
        if len(saves) != 1:
            raise Violation('expected the run to be saved once, spy log %r (%s)' % (fr.spy_log, what), 'saved')
        rid = saves[0][1]
        md = fr.cas.get_recording(rid).get_metadata()
        md2 = fr.cas.get_recording_metadata(rid)
        term = eff['terminated']
        # class
        if md.get(TR.OPERATION_CLASS) is not fr.cls:
            raise Violation('operation class in metadata is %r, the operation is %r' % (md.get(TR.OPERATION_CLASS), fr.cls),
                            'class')
        # duration
        dur = md.get(TR.DURATION)
        inside = fr.W.t_body_end - fr.W.t_body_start
        upper = fr.cas.spy_save_times[0] - fr.t_before
        if not isinstance(dur, float) or dur < 0:
            raise Violation('duration %r is not a non-negative float' % (dur,), 'duration')
        if dur + EPS < inside:
            raise Violation('duration %.4f is shorter than the %.4f s spent inside the operation (%s)' % (
                dur, inside, what), 'duration')
        if dur > upper + EPS:
            raise Violation('duration %.4f exceeds the %.4f s between the call and the hand-over to the cassette: it '
                            'includes later work (%s)' % (dur, upper, what), 'duration')
        # timestamp
        ts = parse_ts(md.get(TR.RECORDED_AT)) if isinstance(md.get(TR.RECORDED_AT), str) else None
        if ts is None:
            raise Violation('timestamp %r does not parse' % (md.get(TR.RECORDED_AT),), 'timestamp')
        if not (fr.utc_before - datetime.timedelta(seconds=EPS) <= ts <= fr.utc_after + datetime.timedelta(seconds=EPS)):
            raise Violation('timestamp %s outside the run window %s .. %s' % (ts, fr.utc_before, fr.utc_after),
                            'timestamp')
        # incomplete / exception flags
        inc = md.get(TR.INCOMPLETE_RECORDING)
        if inc is not (term == 'interrupt'):
            raise Violation('incomplete flag is %r for a run that ended by %s (%s)' % (inc, term, what), 'incomplete')
        if term != 'interrupt':
            exc = md.get(TR.EXCEPTION_IN_OPERATION)
            if exc is not (term == 'raise'):
                raise Violation('exception flag is %r for a run that ended by %s (%s)' % (exc, term, what),
                                'exception-flag')
        # extractor
        mode = prog.get('extractor', 'none')
        calls = [j for j in fr.W.journal if j[0] == 'extractor']
        user = dict((k, md[k]) for k in ('user_key', 'n') if k in md)
        if mode == 'none':
            want_user, want_calls = {}, 0
        elif mode == 'ok':
            want_user, want_calls = {'user_key': 'user value', 'n': 3}, 1
        else:
            want_user, want_calls = {}, 1
        if len(calls) != want_calls:
            raise Violation('metadata extractor called %d times, expected %d (%s)' % (len(calls), want_calls, what),
                            'extractor')
        if calls:
            bodies_after = [j for j in fr.W.journal[fr.W.journal.index(calls[0]):] if j[0] == 'body']
            if bodies_after:
                raise Violation('metadata extractor ran before the operation finished', 'extractor')
            if calls[0][2] != 1 or calls[0][3]:
                raise Violation('metadata extractor called with %d positional args / kwargs %r, the operation was '
                                'called with 1 / none' % (calls[0][2], calls[0][3]), 'extractor')
        if user != want_user:
            raise Violation('user metadata is %r, extractor (%s) gives %r (%s)' % (user, mode, want_user, what),
                            'user-metadata')
        if 'earlier_only' in md:
            raise Violation('metadata carries user metadata of an EARLIER run of the same operation class: %r (%s)' % (
                dict((k, md[k]) for k in ('user_key', 'n', 'earlier_only') if k in md), what), 'user-metadata')
        if fr.prior_same is not None:
            # the recording of the earlier run of the same class still says what it said when it was saved
            prid, pmd = fr.prior_same
            now_md = dict((k, v) for k, v in fr.cas.get_recording_metadata(prid).items() if not isinstance(v, type))
            if now_md != pmd:
                diff = sorted(k for k in set(now_md) | set(pmd) if now_md.get(k, '<absent>') != pmd.get(k, '<absent>'))
                raise Violation('metadata of the EARLIER recording of the same operation class changed at %r when the '
                                'next run was recorded: now %r, was %r' % (
                                    diff, [now_md.get(k, '<absent>') for k in diff], [pmd.get(k, '<absent>') for k in diff]),
                                'earlier-recording')
        if md2 != md:
            raise Violation('metadata fetched on its own differs from the recording\'s metadata', 'metadata-only')
        # default lookup
        listed = list(find_matching_recording_ids(fr.rec, fr.cls.__name__, RecordingLookupProperties(start_date=None)))
        if (rid in listed) is (term == 'interrupt'):
            raise Violation('default skip-incomplete lookup %s a recording of a run that ended by %s' % (
                'lists' if rid in listed else 'omits', term), 'default-lookup')
    finally:
        fr.close()
    return eff


def nontrivial(prog, faults):
    for f in faults:
        if f['kind'] == 'extractor' and f['mode'] != 'ok':
            return True
        if f['kind'] in ('body_raise', 'body_interrupt'):
            return True
        if f['kind'] in ('op_raise', 'op_interrupt', 'op_exit0', 'op_exit', 'op_ctrl_c') and f['at'] >= 2:
            return True
    return False


def enumerate_case(ctx, base):
    prog = base['prog']
    for fl in FR.placements(ctx, prog, base['pair_seed'], kinds=KINDS, extra=('exits',)):
        case = dict(base, faults=fl)
        case.pop('pair_seed')
        try:
            eff = check_case(ctx, case)
        except Violation as v:
            v.case = case
            raise
        ctx.case(case, nontrivial(prog, fl), classes=tuple('fault:' + f['kind'] + (':' + f['mode'] if 'mode' in f else '')
                                                          for f in fl) + (
            'ends:' + eff['terminated'], 'caller:' + str(base.get('within_handler')), 'prior:' + str(base.get('prior')),
            'earlier-run-of-same-class' if base.get('prior_same_class') else 'first-run-of-class', 'klass:' + prog.get('klass', 'instance'), 'derived' if prog.get('derived') else 'not-derived',
            'cassette:' + base['cassette']))


def replay(ctx, case):
    if 'faults' in case:
        check_case(ctx, case)
    else:
        enumerate_case(ctx, case)


@st.composite
def bases(draw):
    prog = draw(FR.with_nested_operation(FR.base_programs(max_steps=4)))
    # sprinkle short sleeps
    for _ in range(draw(st.integers(0, 2))):
        prog['steps'].insert(draw(st.integers(0, len(prog['steps']))), {'t': 'sleep', 'ms': draw(st.integers(1, 3))})
    # recording switched off (and maybe on again) in the middle of the operation
    if draw(st.sampled_from([False, False, True])):
        prog['steps'].insert(draw(st.integers(0, len(prog['steps']))), {'t': 'toggle', 'on': False})
        if draw(st.booleans()):
            prog['steps'].append({'t': 'toggle', 'on': True})
    PS.assign_sids(prog)
    if draw(st.sampled_from([False, False, True])):
        prog['derived'] = True       # the operation runs on a subclass of the class carrying the recording parameters
        prog['params'] = draw(st.sampled_from([None, {'copy_data_on_intercepion': True}, {'sampling_rate': 1}]))
    return {'prog': prog, 'pair_seed': draw(st.integers(0, 10 ** 6)),
            'cassette': draw(st.sampled_from(['memory', 'memory', 'file', 's3'])),
            'within_handler': draw(st.sampled_from([None, None, 'exception', 'interrupt'])),
            'prior': draw(st.sampled_from([None, None, ['record'], ['record', 'play'], ['record', 'play']])),
            'prior_same_class': draw(st.sampled_from([False, False, True])),
            'extractor_ok': draw(st.booleans()), 'slow_save_ms': draw(st.sampled_from([0, 0, 4])),
            'slow_extractor_ms': draw(st.sampled_from([0, 0, 4]))}


def run(ctx):
    hyp_search(ctx, bases(), lambda b: enumerate_case(ctx, b), ctx.pick(12, 120), label='terminations')
