"""C16 - S3 time-window lookup is exact."""
import datetime as dt

from hypothesis import strategies as st

from pbt import zoo, fakes3, refmatch
from pbt.runner import Violation, hyp_search, guarded

LEVEL = 'exploration'
SHARDS = {'quick': 1, 'thorough': 8}
RULE = ('Exhaustive part: one recording per grid instant over a 4-day span (quick: 1-hour grid, thorough: 20-minute grid), '
        'each created and saved with the controlled clock at that instant through the real S3 cassette over the fake '
        'bucket; every (start, end) pair on the grid with start <= end is queried, and for end omitted "now" is every '
        'grid instant (queried in chronological order so that nothing is stored after "now"). Random part: '
        'Hypothesis-generated minute-level recording instants, windows, metadata filters, limits, two categories '
        '(generated names, including date-format directives and format fields, one name extending the other) and '
        'two key prefixes; the first two exact lookups of a case are also consumed interleaved (both open at once). Oracle: the set {r : start <= t(r) <= end} computed from the harness list of save instants. '
        'Non-trivial: the window spans >= 2 calendar days and end time-of-day is earlier than start time-of-day '
        '(the class in which a day folder can be missed), or the window cuts through a day with recordings on both '
        'sides. Distinct = distinct (grid, start, end/now) or generated case.')
ASSUMPTIONS = ['process clock in UTC; recordings created and saved at the same instant',
               'fake bucket reports last_modified exactly as the controlled clock (no rounding)']

BASE = dt.datetime(2026, 2, 26, 0, 0, 0)   # spans a month boundary (Feb -> Mar)


def iso(t):
    return t.strftime('%Y-%m-%dT%H:%M')


def parse(s):
    return dt.datetime.strptime(s, '%Y-%m-%dT%H:%M')


def window_class(start, end):
    days = (end.date() - start.date()).days
    if days >= 1 and end.time() < start.time():
        return 'cross-midnight-end-earlier'
    if days >= 1:
        return 'multi-day'
    return 'same-day'


def query(cas, cat, start, end, now, **kw):
    fakes3.CLOCK.now = now
    try:
        return list(cas.iter_recording_ids(cat, start_date=start, end_date=end, **kw))
    finally:
        fakes3.CLOCK.now = None


def save_at(cas, cat, t, meta=None):
    fakes3.CLOCK.now = t
    try:
        rec = cas.create_new_recording(cat)
        rec.set_data('k', 1)
        rec.add_metadata(dict(meta or {}))
        cas.save_recording(rec)
    finally:
        fakes3.CLOCK.now = None
    return rec.id


def check_grid_query(ctx, cas, saved, grid_h, start, end, now):
    """saved: list of (t, id). end None -> defaults to now."""
    got = query(cas, 'A', start, end, now)
    hi = end if end is not None else now
    want = sorted(i for t, i in saved if start <= t <= hi)
    if len(set(got)) != len(got):
        raise Violation('duplicates in window %s..%s: %r' % (iso(start), iso(hi), got), 'duplicates')
    if sorted(got) != want:
        by_id = dict((i, t) for t, i in saved)
        missed = [iso(by_id[i]) for i in want if i not in got]
        extra = [iso(by_id[i]) if i in by_id else i for i in got if i not in want]
        raise Violation('window start=%s end=%s (now=%s): missed recordings at %r, returned outside-window %r' % (
            iso(start), iso(end) if end else 'omitted', iso(now), missed[:5], extra[:5]),
                        'missed' if missed else 'outside')


def grid_case(grid_h, start, end, now):
    return {'grid_h': grid_h, 'start': iso(start), 'end': iso(end) if end else None, 'now': iso(now)}


def run_grid(ctx, grid_h, only=None):
    """Chronological sweep. `only` = a single case description to replay."""
    n = (96 * 60) // grid_h
    instants = [BASE + dt.timedelta(minutes=grid_h * i) for i in range(n)]
    ok = True
    with zoo.Zoo(kinds=('s3',), s3_prefixes=('',)) as z:
        cas = z.cassettes[0]
        saved = []
        for idx, now in enumerate(instants):
            saved.append((now, save_at(cas, 'A', now)))
            save_at(cas, 'AB', now)
            # end omitted: now = this instant, nothing is stored after it
            for sidx, start in enumerate(instants[:idx + 1]):
                case = grid_case(grid_h, start, None, now)
                if only is not None:
                    if only == case:
                        check_grid_query(ctx, cas, saved, grid_h, start, None, now)
                        return True
                    continue
                if ctx.nshards > 1 and ((idx + sidx) % ctx.nshards) != ctx.shard:
                    continue
                wc = window_class(start, now)
                ctx.case(case, wc == 'cross-midnight-end-earlier' or (wc != 'same-day'),
                         classes=('grid:end-omitted', 'grid:' + wc))
                if not guarded(ctx, case, lambda c: check_grid_query(ctx, cas, saved, grid_h, start, None, now)):
                    ok = False
                    if len(ctx.violations) >= 3:
                        return False
        far = instants[-1] + dt.timedelta(days=1)
        for i, start in enumerate(instants):
            for end in instants[i:]:
                case = grid_case(grid_h, start, end, far)
                if only is not None:
                    if only == case:
                        check_grid_query(ctx, cas, saved, grid_h, start, end, far)
                        return True
                    continue
                if ctx.nshards > 1 and (i % ctx.nshards) != ctx.shard:
                    continue
                wc = window_class(start, end)
                ctx.case(case, wc != 'same-day', classes=('grid:explicit-end', 'grid:' + wc))
                if not guarded(ctx, case, lambda c: check_grid_query(ctx, cas, saved, grid_h, start, end, far)):
                    ok = False
                    if len(ctx.violations) >= 3:
                        return False
    return ok


# ---- random part
minutes = st.integers(0, 4 * 24 * 60 - 1)
recs = st.lists(st.tuples(minutes, st.sampled_from(['A', 'A', 'AB']), st.sampled_from([0, 1, 2])), min_size=1, max_size=10)
queries = st.tuples(minutes, st.one_of(st.none(), minutes), st.one_of(st.none(), st.integers(1, 5)),
                    st.one_of(st.none(), st.sampled_from([0, 1, [0, 1], {'operator': '>=', 'value': 1}])),
                    st.sampled_from(['A', 'AB']), st.booleans())
# category names: the time window must not depend on the text of the category (date-format directives, format
# fields, spaces); 'AB' stands for <name>B, a category whose name extends the other one
cat_names = st.one_of(st.just('A'), st.text(alphabet=st.sampled_from(list(u'AaYdmHj%{}_ -.0')), min_size=1, max_size=5))
random_cases = st.tuples(recs, st.lists(queries, min_size=1, max_size=4), st.sampled_from(['', 'p']), cat_names)


def check_random(ctx, case):
    recs_, queries_, prefix = case[:3]
    name = case[3] if len(case) > 3 else 'A'
    names = {'A': name, 'AB': name + 'B'}
    with zoo.Zoo(kinds=('s3',), s3_prefixes=(prefix, 'other')) as z:
        cas, other = z.cassettes
        saved = []
        # saved in the generated order, not chronologically: stored keys (random ids) carry no time order
        for m, cat, x in [(m, names[c], x) for m, c, x in recs_]:
            t = BASE + dt.timedelta(minutes=m)
            saved.append((t, cat, x, save_at(cas, cat, t, {'x': x})))
            save_at(other, cat, t, {'x': x})
        last = max(t for t, _, _, _ in saved)
        done_queries = []
        for m0, m1, limit, flt, cat, rnd in queries_:
            cat = names[cat]
            start = BASE + dt.timedelta(minutes=m0)
            end = BASE + dt.timedelta(minutes=m1) if m1 is not None else None
            if end is not None and end < start:
                start, end = end, start
            now = max(last, start) + dt.timedelta(minutes=1)
            hi = end if end is not None else now
            kw = {}
            if flt is not None:
                kw['metadata'] = {'x': flt}
            if limit is not None:
                kw['limit'] = limit
            if rnd:
                kw['random_results'] = True
            got = query(cas, cat, start, end, now, **kw)
            matching = sorted(i for t, c, x, i in saved if c == cat and start <= t <= hi and
                              (flt is None or refmatch.match({'x': flt}, {'x': x}) is True))
            if len(set(got)) != len(got):
                raise Violation('duplicates: %r' % (got,), 'duplicates')
            if not set(got) <= set(matching):
                raise Violation('query start=%s end=%s cat=%s filter=%r returned recordings outside the window/filter: '
                                '%r not in %r' % (iso(start), iso(end) if end else None, cat, flt,
                                                  sorted(set(got) - set(matching)), matching), 'outside')
            want_n = len(matching) if limit is None else min(limit, len(matching))
            if len(got) != want_n:
                raise Violation('query start=%s end=%s (now=%s) cat=%s filter=%r limit=%r returned %d of %d matching '
                                'recordings (saved at %r)' % (
                                    iso(start), iso(end) if end else None, iso(now), cat, flt, limit, len(got), want_n,
                                    [iso(t) for t, c, _, _ in saved if c == cat]), 'missed')
            done_queries.append((cat, start, end, now, dict(kw), sorted(got), limit, rnd))
            wc = window_class(start, hi)
            ctx.case({'random': [recs_, [m0, m1, limit, flt, cat, rnd], prefix, name]},
                     wc != 'same-day' and len(matching) > 0,
                     classes=('rnd:' + wc, 'rnd:limit' if limit else 'rnd:nolimit', 'rnd:filter' if flt is not None
                              else 'rnd:nofilter', 'rnd:category-with-percent' if '%' in name else
                              'rnd:category-plain'))
        interleaved(ctx, cas, done_queries)


def interleaved(ctx, cas, done_queries):
    """Two lookups with different windows open on the same cassette at the same time: each returns what it returns
    alone (exact, unlimited, ordered lookups only - those have one right answer)."""
    exact = [q for q in done_queries if q[6] is None and not q[7]]
    if len(exact) < 2:
        return
    a, b = exact[0], exact[1]
    now = max(a[3], b[3])
    fakes3.CLOCK.now = now
    try:
        ia = iter(cas.iter_recording_ids(a[0], start_date=a[1], end_date=a[2] if a[2] is not None else a[3], **a[4]))
        got_a = [x for _, x in zip(range(1), ia)]
        ib = iter(cas.iter_recording_ids(b[0], start_date=b[1], end_date=b[2] if b[2] is not None else b[3], **b[4]))
        got_b = [x for _, x in zip(range(1), ib)]
        got_a += list(ia)
        got_b += list(ib)
    finally:
        fakes3.CLOCK.now = None
    for q, got in ((a, got_a), (b, got_b)):
        if sorted(got) != q[5]:
            raise Violation('window lookup start=%s end=%s returned %d recordings alone and %d while another window '
                            'lookup (start=%s end=%s) was open on the same cassette' % (
                                iso(q[1]), iso(q[2]) if q[2] else 'now', len(q[5]), len(got),
                                iso((b if q is a else a)[1]), iso((b if q is a else a)[2]) if (b if q is a else a)[2]
                                else 'now'), 'interleaved')
    ctx.count('interleaved-window-lookups')


def replay(ctx, case):
    if isinstance(case, dict) and 'grid_h' in case:
        if not run_grid(ctx, case['grid_h'], only=case):
            raise Violation('grid case not found: %r' % (case,), 'replay')
    else:
        check_random(ctx, case)


def run(ctx):
    grid_h = ctx.pick(60, 20)   # grid step in minutes
    done = run_grid(ctx, grid_h)
    ctx.exhaustive = bool(done)
    ctx.extra['exhaustive_scope'] = 'all (start, end) pairs and all (start, now) pairs on the %d-minute grid over 4 days' % grid_h
    if not ctx.violations:
        def body(case):
            check_random(ctx, case)
        hyp_search(ctx, random_cases.map(lambda c: [[list(r) for r in c[0]], [list(q) for q in c[1]], c[2], c[3]]),
                   body, ctx.pick(600, 1500), label='random')
