"""C14 - metadata filter matching is total and means what is documented."""
import itertools

from hypothesis import strategies as st

from pbt import refmatch
from pbt.refmatch import ABSENT, UNSPECIFIED
from pbt.runner import Violation, hyp_search, guarded

LEVEL = 'exploration'
SHARDS = {'quick': 1, 'thorough': 1}
RULE = ('filters = atoms, lists of <=2 atoms/operator objects, operator objects (op in =,<,<=,>,>=,!= x value atom) '
        'evaluated exhaustively against every atom and "absent"; plus Hypothesis-generated multi-key filters with '
        'nested lists, unicode patterns, larger numbers and JSON-shaped metadata; plus listing through the in-memory '
        'and S3 cassettes over stores with heterogeneous metadata, alone and with a second lookup (other filter) open on '
        'the same cassette. Oracle: reference model written from the '
        'statement (pbt/refmatch.py); result must be a bool, equal to the reference where the statement speaks, '
        'identical on a second call and when the filter dict is one that held another filter before and was updated in '
        'place, and no call may raise. Non-trivial: filter is a list or operator object, or '
        'the recorded value is absent, or filter and recorded value have different types. Distinct = distinct '
        '(filter, metadata) pair.')
ASSUMPTIONS = ['metadata values are JSON-shaped (None, bool, number, str, list, str-keyed dict)',
               'posix fnmatch (case-sensitive)']

ATOMS = [None, True, False, 0, 1, 2, 1.5, '', 'a', 'ab', 'b', 'a*', '?', '[ab]', {'k': 1}, {'py/type': 'm.C'}]
OPERATORS = ['=', '<', '<=', '>', '>=', '!=']


def _matcher():
    from playback.tape_cassette import TapeCassette
    return TapeCassette.match_against_recorded_metadata


def tname(v):
    return 'absent' if v is ABSENT else type(v).__name__


def nontrivial(f, recorded):
    if isinstance(f, list) or refmatch.is_operator_object(f) or recorded is ABSENT:
        return True
    return type(f) is not type(recorded)


def check_pair(ctx, filter_by, metadata):
    """filter_by: dict key -> filter; metadata: dict."""
    m = _matcher()
    import copy
    f1, m1 = copy.deepcopy(filter_by), copy.deepcopy(metadata)
    try:
        got = m(filter_by, metadata)
        again = m(filter_by, metadata)
    except Exception as e:  # pylint: disable=broad-except
        raise Violation('matching raised %s: %s for filter=%r metadata=%r' % (type(e).__name__, e, f1, m1), 'totality')
    if filter_by != f1 or metadata != m1:
        raise Violation('matching mutated its arguments: filter=%r metadata=%r' % (f1, m1), 'purity')
    if type(got) is not bool:
        raise Violation('matching returned non-bool %r for filter=%r metadata=%r' % (got, f1, m1), 'bool')
    if got != again:
        raise Violation('matching not deterministic for filter=%r metadata=%r' % (f1, m1), 'determinism')
    want = refmatch.match(filter_by, metadata)
    if want is UNSPECIFIED:
        ctx.count('unspecified_by_statement')
    elif got != want:
        raise Violation('filter=%r metadata=%r: code says %r, documented meaning says %r' % (f1, m1, got, want),
                        'meaning')


def case_desc(filter_by, metadata):
    return {'filter': filter_by, 'metadata': metadata}


def check_pair_after(ctx, previous, filter_by, metadata):
    """The caller keeps ONE filter dict and updates it in place between lookups (a search form): the answer must be
    that of the filter's current value."""
    import copy
    obj = copy.deepcopy(previous)
    try:
        _matcher()(obj, copy.deepcopy(metadata))
    except Exception:  # pylint: disable=broad-except
        pass     # totality of that call is the matter of its own case
    obj.clear()
    obj.update(copy.deepcopy(filter_by))
    check_pair(ctx, obj, metadata)


def replay(ctx, case):
    if isinstance(case, dict) and case.get('previous_filter') is not None:
        check_pair_after(ctx, case['previous_filter'], case['filter'], case['metadata'])
        return
    if isinstance(case, (list, tuple)):
        if len(case) in (2, 3) and isinstance(case[0], list):
            check_listing(ctx, case)
        else:
            check_pair(ctx, case[0], case[1])
        return
    check_pair(ctx, case['filter'], case['metadata'])


def exhaustive(ctx):
    ops = [{'operator': o, 'value': v} for o in OPERATORS for v in ATOMS]
    singles = ATOMS + ops
    if ctx.quick:
        lists = [[a] for a in singles] + [[a, b] for a in ATOMS for b in ATOMS] + \
                [[o, a] for o in ops[::3] for a in ATOMS[::2]] + [[]]
    else:
        lists = [[a] for a in singles] + [[a, b] for a in singles for b in singles] + [[]]
    filters = singles + lists
    recorded = ATOMS + [[1], ['a'], ABSENT]
    ok = True
    previous = None
    for f in filters:
        for r in recorded:
            md = {} if r is ABSENT else {'x': r}
            case = case_desc({'x': f}, md)
            # every case also runs on a filter dict that held the previous case's filter and was updated in place
            case['previous_filter'] = previous
            previous = {'x': f}
            ctx.case(case, nontrivial(f, r), classes=('exh:filter=%s' % ('operator' if refmatch.is_operator_object(f)
                                                                       else tname(f)),
                                                      'exh:recorded=%s' % tname(r)))
            if not guarded(ctx, case, lambda c: (check_pair(ctx, c['filter'], c['metadata']),
                                                 c['previous_filter'] is None or check_pair_after(
                                                     ctx, c['previous_filter'], c['filter'], c['metadata']))):
                ok = False
                if len(ctx.violations) >= 5:
                    return False
    return ok


# ---- random part
json_scalars = st.one_of(st.none(), st.booleans(), st.integers(-10 ** 12, 10 ** 12),
                         st.floats(allow_nan=False, allow_infinity=False, width=32),
                         st.text(alphabet=st.sampled_from(list(u'ab*?[]!-\\.é中 A')), max_size=5),
                         st.text(max_size=4))
json_values = st.recursive(json_scalars, lambda c: st.one_of(
    st.lists(c, max_size=3), st.dictionaries(st.sampled_from(['k', 'operator', 'value', 'py/type']), c, max_size=3)),
                           max_leaves=6)
op_objects = st.fixed_dictionaries({'operator': st.one_of(st.sampled_from(OPERATORS), st.text(max_size=2), st.none()),
                                    'value': json_values})
# lists of alternatives of any length (implementations may treat long lists differently from short ones)
long_lists = st.lists(st.one_of(json_scalars, json_scalars, op_objects, json_values), min_size=4, max_size=40)
filters = st.one_of(st.recursive(st.one_of(json_values, op_objects), lambda c: st.lists(c, max_size=3), max_leaves=5),
                    st.recursive(st.one_of(json_values, op_objects), lambda c: st.lists(c, max_size=3), max_leaves=5),
                    st.recursive(st.one_of(json_values, op_objects), lambda c: st.lists(c, max_size=3), max_leaves=5),
                    long_lists)
KEYS = ['x', 'y', '_tape_recorder_incomplete_recording', 'z z']
pairs = st.tuples(st.dictionaries(st.sampled_from(KEYS), filters, max_size=3),
                  st.dictionaries(st.sampled_from(KEYS), json_values, max_size=4),
                  st.one_of(st.none(), st.dictionaries(st.sampled_from(KEYS), filters, max_size=3)))


def random_part(ctx):
    def body(case):
        f, m, prev = case
        nt = any(nontrivial(fv, m.get(k, ABSENT)) for k, fv in f.items())
        desc = case_desc(f, m)
        desc['previous_filter'] = prev
        ctx.case(desc, nt, classes=('rnd:keys=%d' % len(f), 'rnd:filter-updated-in-place' if prev is not None else
                                    'rnd:fresh-filter') + (('rnd:more-than-8-alternatives',) if any(
                                        isinstance(fv, list) and len(fv) > 8 for fv in f.values()) else ()))
        check_pair(ctx, f, m)
        if prev is not None:
            check_pair_after(ctx, prev, f, m)

    holder = []
    ok = hyp_search(ctx, pairs, body, ctx.pick(3000, 60000), label='random')
    return ok


def check_listing(ctx, case):
    """Integration clause: one odd recording cannot abort a lookup (in-memory and S3 cassettes)."""
    from pbt import zoo
    mds, flt = case[0], case[1]
    flt2 = case[2] if len(case) > 2 else None
    with zoo.Zoo(kinds=('memory', 's3')) as z:
        for cas in z.cassettes:
            ids = []
            for md in mds:
                r = cas.create_new_recording('Cat')
                r.set_data('k', 1)
                r.add_metadata(dict(md))
                cas.save_recording(r)
                ids.append(r.id)
            want = []
            unspecified = False
            for rid, md in zip(ids, mds):
                w = refmatch.match(flt, md)
                if w is UNSPECIFIED:
                    unspecified = True
                elif w:
                    want.append(rid)
            try:
                got = list(cas.iter_recording_ids('Cat', metadata=dict(flt)))
            except Exception as e:  # pylint: disable=broad-except
                raise Violation('listing on %s raised %s: %s (filter=%r, metadata=%r)' % (
                    z.name(cas), type(e).__name__, e, flt, mds), 'listing-totality')
            if got:
                ctx.count('listing_lookups_with_matches')
            if not unspecified and sorted(got) != sorted(want):
                raise Violation('listing on %s returned %r, expected %r (filter=%r, metadata=%r)' % (
                    z.name(cas), got, want, flt, mds), 'listing-meaning')
            if flt2 is not None:
                # the answer for (filter, metadata) is the same when another lookup is open on the same cassette
                try:
                    alone2 = list(cas.iter_recording_ids('Cat', metadata=dict(flt2)))
                    it = iter(cas.iter_recording_ids('Cat', metadata=dict(flt)))
                    first = [x for _, x in zip(range(1), it)]
                    other = list(cas.iter_recording_ids('Cat', metadata=dict(flt2)))
                    rest = first + list(it)
                except Exception as e:  # pylint: disable=broad-except
                    raise Violation('interleaved listing on %s raised %s: %s (filters=%r / %r, metadata=%r)' % (
                        z.name(cas), type(e).__name__, e, flt, flt2, mds), 'listing-totality')
                if sorted(rest) != sorted(got) or sorted(other) != sorted(alone2):
                    raise Violation('listing on %s with filter %r gave %r alone and %r while a lookup with filter %r was '
                                    'open (that one: %r alone, %r interleaved); metadata=%r' % (
                                        z.name(cas), flt, got, rest, flt2, alone2, other, mds), 'listing-deterministic')
    ctx.case({'listing': {'metadata': mds, 'filter': flt, 'filter2': flt2}}, len(mds) >= 2 and bool(flt),
             classes=('listing', 'listing:interleaved' if flt2 is not None else 'listing:single'))


def listing_part(ctx):
    # stored metadata goes through the serializer: dict keys that are serializer tags (py/...) are outside its
    # faithful domain (DESIGN.md 2.2), so the stored side uses values without them
    from pbt import values as V
    stored_values = st.recursive(json_scalars, lambda c: st.one_of(
        st.lists(c, max_size=3), st.dictionaries(st.sampled_from(['k', 'operator', 'value']), c, max_size=3)),
                                 max_leaves=6).filter(V.faithful)
    @st.composite
    def strat(draw):
        mds = draw(st.lists(st.dictionaries(st.sampled_from(KEYS), stored_values, max_size=3), min_size=1, max_size=5))
        present = [(k, v) for md in mds for k, v in md.items()]

        def a_filter():
            # half of the filter entries are taken from what is stored, so that lookups match some recordings
            out = {}
            for _ in range(draw(st.integers(1, 2))):
                if present and draw(st.booleans()):
                    k, v = draw(st.sampled_from(present))
                    out[k] = draw(st.sampled_from([v, [v], [v, None], {'operator': '=', 'value': v},
                                                   {'operator': '!=', 'value': v}, [[None], v], [[v, None]],
                                                   [[[None]]], [{'operator': '=', 'value': v}, None]]))
                else:
                    out[draw(st.sampled_from(KEYS))] = draw(filters)
            return out
        first = a_filter()
        second = None
        if draw(st.booleans()):
            second = a_filter()
            # the second lookup usually filters the same key by another stored value, so that the two lookups give
            # different answers for some recording
            k = sorted(first)[0]
            others = [v for kk, v in present if kk == k]
            if others and draw(st.booleans()):
                second = {k: draw(st.sampled_from(others))}
        return (mds, first, second)

    strat = strat()
    return hyp_search(ctx, strat, lambda c: check_listing(ctx, c), ctx.pick(200, 3000), label='listing')


def run(ctx):
    done = exhaustive(ctx)
    ctx.exhaustive = bool(done)
    ctx.extra['exhaustive_scope'] = 'the small universe named in rule (quick: lists of two restricted to atom pairs ' \
                                    'and a thinned operator/atom product)' if ctx.quick else 'the full small universe'
    if not ctx.violations:
        random_part(ctx)
    if not ctx.violations:
        listing_part(ctx)
