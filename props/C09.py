"""C09 - the recorder returns to idle; every run is independent of history."""
import copy
import queue
import threading

from hypothesis import strategies as st
from hypothesis.stateful import rule, precondition

from pbt import progsim as PS, values as V, faultrun as FR, zoo
from pbt.runner import Violation, run_machine
from pbt.stateful import HistoryMachine, replay_history
from props.C01 import outputs_map
from props.C03 import norm

LEVEL = 'exploration'
SHARDS = {'quick': 8, 'thorough': 16}
RULE = ('Rule-based state machine holding ONE recorder + in-memory cassette and a pool of two long-lived worker threads '
        '(the "threads" steps of every program run on these same threads). Rules: run a generated program with an '
        'optional fault (ends by return / ordinary exception / interrupt in the operation or inside an intercepted body, '
        'also on a pool thread / discard / sampled out (rate 0) / forced sampling / key or handler failure / failing save '
        '/ failing extractor / misconfigured recording parameters whose sampling rate cannot be evaluated when the '
        'operation ends); play() of a saved recording (ok; operation raising in replay), of a missing id, with a '
        'program requesting a missing key, with a playback function that raises; enable/disable recording. Oracle: '
        'after every rule the recorder is idle (not recording, not replaying, no current recording id, no forced '
        'sampling); operations never fail with framework errors (except for the misconfigured parameters); PROBE rule: a generated probe program (main-thread and '
        'pool-thread interceptions) is recorded and replayed on this recorder and on a fresh recorder with a fresh '
        'cassette: stored keys, data, metadata (minus duration/timestamp/ids) and Playback outputs must be equal. '
        'A second part uses as history one threaded operation (workers that discard, force sampling and intercept) run '
        'under the deterministic scheduler (sampled PCT / random schedules; bounded-preemption DFS for tiny programs, also '
        'with workers the operation does not wait for, which may still be running when it ends), followed by the same '
        'idle check and probe. '
        'Non-trivial: a probe preceded by >= 1 abnormal ending (exception, interrupt, discard, failed replay). Distinct = '
        'distinct history up to the probe.')
ASSUMPTIONS = ['probes use deterministic sampling parameters (the seeded generator is history by design)',
               'operations are not nested or concurrent on one recorder']

VOLATILE = ('_tape_recorder_recording_duration', '_tape_recorder_recorded_at', '_tape_recorder_operation_class')


class Pool(object):
    """Two long-lived threads; progsim's thread steps are executed on them."""

    def __init__(self, n=2):
        self.queues = [queue.Queue() for _ in range(n)]
        self.threads = [threading.Thread(target=self._loop, args=(q,), daemon=True) for q in self.queues]
        for t in self.threads:
            t.start()
        self.k = 0

    @staticmethod
    def _loop(q):
        while True:
            item = q.get()
            if item is None:
                return
            fn, args, done = item
            try:
                fn(*args)
            finally:
                done.set()

    def factory(self, target, args):
        pool = self
        idx = self.k % len(self.queues)
        self.k += 1

        class Handle(object):
            def start(self):
                self.done = threading.Event()
                pool.queues[idx].put((target, args, self.done))

            def join(self):
                self.done.wait(30)

        return Handle()

    def close(self):
        for q in self.queues:
            q.put(None)
        for t in self.threads:
            t.join(5)


def idle(rec, after):
    problems = []
    if rec.in_recording_mode:
        problems.append('in_recording_mode')
    if rec.in_playback_mode:
        problems.append('in_playback_mode')
    if rec.current_recording_id is not None:
        problems.append('current_recording_id=%r' % (rec.current_recording_id,))
    if rec.is_recording_sample_forced:
        problems.append('is_recording_sample_forced')
    if problems:
        raise Violation('recorder not idle after %s: %s' % (after, ', '.join(problems)), 'idle')


def stored_view(cas, rid):
    r = cas.get_recording(rid)
    keys = sorted(r.get_all_keys())
    data = dict((k, r.get_data(k)) for k in keys)
    md = dict((k, v) for k, v in r.get_metadata().items() if k not in VOLATILE)
    return keys, norm_data(data), md


def norm_data(data):
    out = {}
    for k, v in data.items():
        if isinstance(v, dict) and isinstance(v.get('exception'), BaseException):
            out[k] = ('EXC', type(v['exception']).__name__)
        else:
            out[k] = norm({k: v})[k]
    return out


def record_and_replay(rec, cas, prog, pool, keep=None):
    """Record prog on rec, replay it; returns comparable observation (ids excluded)."""
    W = PS.World('LIVE')
    W.thread_factory = pool.factory
    cls = PS.build_class(prog, rec, W)
    try:
        live = PS.execute(cls, prog)
        if not W.recording_ids:
            return {'live': live[:2], 'recorded': False}
        rid = W.recording_ids[-1]
        if keep is not None and live[0] != 'interrupt':
            keep.append((rid, prog, cls, W))
        try:
            view = stored_view(cas, rid)
        except Exception as e:  # pylint: disable=broad-except
            return {'live': live[:2] if live[0] != 'ret' else live, 'stored': 'absent: %s' % type(e).__name__}
        W.world, W.sites, W.journal = 'REPLAY', {}, []
        res = {}

        def playback_function(recording):
            res['r'] = PS.execute(cls, prog)
            if res['r'][0] != 'ret':
                raise res['r'][2]

        try:
            pb = rec.play(rid, playback_function)
            play = {'recorded_outputs': norm(outputs_map(pb.recorded_outputs, 'recorded_outputs')),
                    'playback_outputs': norm(outputs_map(pb.playback_outputs, 'playback_outputs'))}
        except Exception as e:  # pylint: disable=broad-except
            play = {'raised': type(e).__name__, 'msg': str(e)[:200]}
        bodies = [j for j in W.journal if j[0] == 'body']
        return {'live': live if live[0] == 'ret' else live[:2], 'stored': view, 'play': play, 'replay_bodies': bodies,
                'replay_result': res.get('r') if res.get('r', ('x',))[0] == 'ret' else (res.get('r') or ('none',))[:2]}
    finally:
        if keep is None:
            PS.forget_class(cls)


class Interp(object):
    def __init__(self, ctx):
        from playback.tape_recorder import TapeRecorder
        self.ctx = ctx
        self.zoo = zoo.Zoo(kinds=('memory',), spy=True).__enter__()
        self.cas = self.zoo.cassettes[0]
        self.rec = TapeRecorder(self.cas, random_seed=5)
        self.rec.enable_recording()
        self.pool = Pool()
        self.saved = []    # (rid, prog, cls, W)
        self.classes = []
        self.history = []
        self.abnormal = 0
        self.enabled = True    # model of the enable/disable switch (only the explicit API calls change it)

    def close(self):
        self.pool.close()
        for c in self.classes:
            PS.forget_class(c)
        self.zoo.__exit__(None, None, None)

    def apply(self, op):
        self.history.append(op)
        getattr(self, 'op_' + op['op'])(op)
        idle(self.rec, op['op'] + (':' + op.get('what', '') if 'what' in op else ''))

    def op_toggle(self, op):
        self.enabled = bool(op['on'])
        if op['on']:
            self.rec.enable_recording()
        else:
            self.rec.disable_recording()

    def op_run(self, op):
        prog, flags = FR.apply_faults(op['prog'], op['faults'])
        # generator precondition (as in C01): an input is a function of its alias and captured arguments - two calls
        # with the same key behave alike, also after a fault was placed on one of them
        prog = PS.assign_sids(PS.normalise_inputs(prog))
        if op.get('params'):
            prog['params'] = op['params']
        self.cas.fail_save = bool(flags.get('save_fails'))
        W = PS.World('LIVE')
        W.thread_factory = self.pool.factory
        cls = PS.build_class(prog, self.rec, W)
        self.classes.append(cls)
        n0 = len(self.cas.spy_log)
        out = PS.execute(cls, prog)
        self.cas.fail_save = False
        if out[0] == 'exc' and out[1] not in ('Err',) and not (
                flags.get('bad_params') and out[1] in ('RuntimeError', 'TypeError')):
            raise Violation('operation failed with %s: %s (history state leaked into this run?)' % (out[1], out[2]),
                            'operation-fails')
        log = self.cas.spy_log[n0:]
        if out[0] != 'ret' or any(e[0] == 'abort' for e in log) or op['faults']:
            self.abnormal += 1
        saves = [e for e in log if e[0] == 'save']
        if saves and out[0] != 'interrupt' and not flags.get('save_fails') and self.enabled:
            try:
                self.cas.get_recording(saves[0][1])
                self.saved.append((saves[0][1], prog, cls, W))
            except Exception:  # unserialisable value: save failed inside the cassette
                pass
        self.ctx.count('run:' + out[0])

    def op_play(self, op):
        from playback.exceptions import RecordingKeyError, NoSuchRecording
        what = op['what']
        if what == 'missing_id':
            try:
                self.rec.play('Nope/0123456789abcdef', lambda r: None)
            except NoSuchRecording:
                pass
            else:
                raise Violation('play() of a missing id did not signal NoSuchRecording', 'missing-id')
            self.abnormal += 1
            self.ctx.count('play:missing_id')
            return
        if what == 'no_duration':
            # a recording that was stored through the cassette API (imported / legacy): it has no duration metadata
            r = self.cas.create_new_recording('Imported')
            r.set_data('k', 1)
            self.cas.save_recording(r)
            try:
                self.rec.play(r.id, lambda recording: None)
            except Exception:  # pylint: disable=broad-except
                pass
            self.abnormal += 1
            self.ctx.count('play:no_duration')
            return
        if not self.saved:
            return
        rid, prog, cls, W = self.saved[op['n'] % len(self.saved)]
        W.thread_factory = self.pool.factory
        if what == 'ok':
            W.world, W.sites, W.journal = 'REPLAY', {}, []

            def pf(recording):
                out = PS.execute(cls, prog)
                if out[0] != 'ret':
                    raise out[2]
            try:
                self.rec.play(rid, pf)
            except RecordingKeyError as e:
                raise Violation('replay of a saved recording on the same recorder failed: %s' % e, 'replay')
            self.ctx.count('play:ok')
        elif what == 'pf_raises':
            def pf(recording):
                raise RuntimeError('playback function fails on purpose')
            try:
                self.rec.play(rid, pf)
            except RuntimeError:
                pass
            self.abnormal += 1
            self.ctx.count('play:pf_raises')
        elif what == 'pf_interrupt':
            def pf(recording):
                raise V.Interrupt('playback function interrupted')
            try:
                self.rec.play(rid, pf)
            except V.Interrupt:
                pass
            self.abnormal += 1
            self.ctx.count('play:pf_interrupt')
        elif what in ('missing_key', 'missing_key_original_raises', 'missing_key_original_interrupted'):
            # replay with a program that asks for an input that was never recorded
            from playback.tape_recorder import TapeRecorder
            W2 = PS.World('REPLAY')
            W2.thread_factory = self.pool.factory
            # (the outputs use the aliases that later probes use: a numbering left behind would show there)
            p2 = PS.assign_sids({'klass': 'instance',
                                 'outs': [{'alias': a, 'kind': 'instance', 'handler': 'none', 'fail_missing': False}
                                          for a in PS.OUT_ALIASES],
                                 'ins': [{'alias': 'never-recorded', 'kind': 'instance', 'capture': 'all',
                                          'handler': 'none', 'resolver': False}],
                                 'steps': [{'t': 'out', 'i': i, 'a': 1, 'kw': [], 'beh': 'ret', 'ret': None,
                                            'reraise_framework': True} for i in range(len(PS.OUT_ALIASES))] +
                                          [{'t': 'in', 'i': 0, 'a': 1, 'b': 2, 'usekw': False, 'beh': 'ret', 'ret': 1,
                                            'name': 'n1', 'reraise_framework': True}],
                                 'ending': 'return', 'result': None, 'extractor': 'none'})
            for s in p2['steps']:
                s['reraise_framework'] = True
            if what != 'missing_key':
                # the input is declared with run_intercepted_when_missing: the replay runs the original function, which
                # fails (the operation copes with it: an ordinary exception, or an interrupt-style timeout it swallows)
                p2['ins'][0]['run_missing'] = True
                p2['steps'][-1]['beh'] = 'raise' if what == 'missing_key_original_raises' else 'interrupt'
                p2['steps'][-1]['swallow_interrupt'] = True
            cls2 = PS.build_class(p2, self.rec, W2)
            self.classes.append(cls2)

            def pf(recording):
                out = PS.execute(cls2, p2)
                if out[0] != 'ret':
                    raise out[2]
            try:
                self.rec.play(rid, pf)
            except RecordingKeyError:
                pass
            except V.Interrupt:
                # the recording answers one of these output calls with a recorded interrupt-style exception (the
                # recorded program swallowed it, this one does not): the replay ends by it, which is just as abnormal
                pass
            self.abnormal += 1
            self.ctx.count('play:' + what)

    def op_probe(self, op):
        from playback.tape_recorder import TapeRecorder
        from playback.tape_cassettes.in_memory.in_memory_tape_cassette import InMemoryTapeCassette
        prog = PS.assign_sids(PS.normalise_inputs(copy.deepcopy(op['prog'])))
        was_enabled = self.enabled
        if not was_enabled:
            self.rec.enable_recording()
        here = record_and_replay(self.rec, self.cas, prog, self.pool, keep=self.saved)
        if not was_enabled:
            self.rec.disable_recording()
        fresh_cas = InMemoryTapeCassette()
        fresh = TapeRecorder(fresh_cas)
        fresh.enable_recording()
        fresh_pool = Pool()
        try:
            there = record_and_replay(fresh, fresh_cas, prog, fresh_pool)
        finally:
            fresh_pool.close()
        if here != there:
            diff = [k for k in set(here) | set(there) if here.get(k) != there.get(k)]
            raise Violation('probe on the used recorder differs from the same probe on a fresh recorder at %r:\n used:  %r'
                            '\n fresh: %r' % (diff, dict((k, here.get(k)) for k in diff),
                                              dict((k, there.get(k)) for k in diff)), 'probe')
        shapes, _, _ = PS.shape_classes(prog)
        self.ctx.case(self.history, self.abnormal > 0, classes=('probe',) + (('probe:threads',) if 'threads' in shapes
                                                                             else ()))


PARAMS = [None, None, {'sampling_rate': 0}, {'sampling_rate': 0, 'ignore_enforced_sampling': True}]


def make_machine(ctx):
    run_progs = PS.programs(values=st.integers(0, 3), max_steps=4, threads=True,
                            in_behs=('ret', 'ret', 'raise', 'nested'), out_behs=('ret', 'ret', 'raise'),
                            in_extra={'handler': st.sampled_from(['none', 'wrap'])},
                            out_extra={'handler': st.sampled_from(['none', 'wrap'])})
    probe_progs = PS.programs(values=V.small_values, max_steps=5, threads=True)

    class Machine(HistoryMachine):
        def make_interp(self):
            return Interp(ctx)

        @rule(prog=run_progs, fault=st.integers(0, 200), use_fault=st.booleans(), params=st.sampled_from(PARAMS),
              data=st.data())
        def run_op(self, prog, fault, use_fault, params, data):
            faults = []
            if use_fault:
                top = [f for f in FR.applicable_faults(prog, extra=('bad_params',)) if f.get('at', 0) <= len(prog['steps']) and
                       ('at' not in f or f['kind'] in FR.INSERTS or prog['steps'][f['at']]['t'] in ('in', 'out'))]
                if top:
                    faults = [top[fault % len(top)]]
                    second = top[(fault * 7 + 3) % len(top)]
                    if data.draw(st.booleans()) and FR.compatible(faults[0], second):
                        faults.append(second)
            else:
                # interrupt raised by an interception running on a pool thread
                workers = [s for s in prog['steps'] if s['t'] == 'threads']
                if workers and data.draw(st.booleans()):
                    for ws in workers[0]['workers']:
                        for x in ws:
                            if x['t'] in ('in', 'out'):
                                x['beh'] = data.draw(st.sampled_from(['interrupt', 'raise', 'discard', 'ret']))
                                break
            self.step({'op': 'run', 'prog': prog, 'faults': faults, 'params': params})

        @precondition(lambda self: self.interp.saved)
        @rule(what=st.sampled_from(['ok', 'ok', 'missing_key', 'missing_key', 'pf_raises', 'pf_interrupt',
                                    'missing_key_original_raises', 'missing_key_original_interrupted']),
              n=st.integers(0, 20))
        def play(self, what, n):
            self.step({'op': 'play', 'what': what, 'n': n})

        @rule(kind=st.sampled_from(['missing_id', 'no_duration', 'on', 'off']))
        def misc(self, kind):
            if kind in ('missing_id', 'no_duration'):
                self.step({'op': 'play', 'what': kind, 'n': 0})
            else:
                self.step({'op': 'toggle', 'on': kind == 'on'})

        @rule(prog=probe_progs)
        def probe(self, prog):
            self.step({'op': 'probe', 'prog': prog})

    return Machine


# ---- history = a threaded operation under the deterministic scheduler (discards / forcing racing with interceptions)

def probe_after_schedule(ctx, case, chooser=None, account=True):
    from props import C04
    from playback.tape_recorder import TapeRecorder
    from playback.tape_cassettes.in_memory.in_memory_tape_cassette import InMemoryTapeCassette

    def after(rec, cas, prog):
        idle(rec, 'a threaded operation under this schedule')
        # probe: one call of every declaration of the same service, in order
        steps = []
        for i, d in enumerate(prog['ins']):
            steps.append({'t': 'in', 'i': i, 'a': 1, 'b': 2, 'usekw': False, 'beh': 'ret', 'ret': ['probe', i],
                          'name': 'n1', 'exc': 'Err'} if d['kind'] != 'property' else
                         {'t': 'in', 'i': i, 'a': None, 'b': None, 'usekw': False, 'beh': 'ret', 'ret': ['probe', i],
                          'name': 'n1', 'exc': 'Err'})
        for i, d in enumerate(prog['outs']):
            for k in range(2):
                steps.append({'t': 'out', 'i': i, 'a': k, 'kw': [], 'beh': 'ret', 'ret': ['ack', i, k], 'exc': 'Err2'})
        probe = PS.assign_sids({'klass': 'instance', 'ins': copy.deepcopy(prog['ins']),
                                'outs': copy.deepcopy(prog['outs']), 'steps': steps, 'ending': 'return',
                                'result': None, 'extractor': 'none'})
        pool, pool2 = Pool(), Pool()
        try:
            here = record_and_replay(rec, cas, probe, pool)
            fresh_cas = InMemoryTapeCassette()
            fresh = TapeRecorder(fresh_cas)
            fresh.enable_recording()
            there = record_and_replay(fresh, fresh_cas, probe, pool2)
        finally:
            pool.close()
            pool2.close()
        if here != there:
            diff = [k for k in set(here) | set(there) if here.get(k) != there.get(k)]
            raise Violation('after a threaded operation under this schedule, a probe on the same recorder differs from '
                            'the probe on a fresh recorder at %r:\n used:  %r\n fresh: %r' % (
                                diff, dict((k, here.get(k)) for k in diff), dict((k, there.get(k)) for k in diff)),
                            'probe-after-schedule')

    sched = C04.run_scheduled(ctx, case, after=after, account=False, chooser=chooser)
    if account:
        ctx.case({'prog': case['prog'], 'trace': ''.join(n[-1] for n in sched.trace)}, sched.preemptions >= 1,
                 classes=('scheduled-history:' + case['how'],))
    return sched


def dfs_history(ctx, behs, bound, detach=False):
    """Every schedule (bounded preemptions) of a tiny two-worker operation, each followed by the probe.
    detach: the operation does not wait for its workers (they may still be running when it ends)."""
    from props import C04
    from pbt import detsched as DS
    case = C04.tiny_threaded(behs, detach=detach)

    def on_run(sched):
        ctx.case({'dfs-history': behs, 'detach': detach, 'trace': ''.join(n[-1] for n in sched.trace)},
                 sched.preemptions >= 1,
                 classes=('scheduled-history-dfs:' + '+'.join(behs) + (':detached' if detach else ''),))

    if detach:
        # without the probe (the idle check after the schedule is part of run_scheduled): these need two preemptions
        # (worker past its check, operation ends, worker goes on), i.e. thousands of schedules
        return DS.dfs_explore(lambda chooser: C04.run_scheduled(ctx, copy.deepcopy(case), chooser=chooser, account=False),
                              bound, ctx.shard, ctx.nshards, free_bound=2, max_runs=ctx.pick(4000, 300000),
                              on_run=on_run)
    return DS.dfs_explore(lambda chooser: probe_after_schedule(ctx, copy.deepcopy(case), chooser=chooser, account=False),
                          bound, ctx.shard, ctx.nshards, free_bound=2, max_runs=ctx.pick(4000, 300000), on_run=on_run)


def replay(ctx, case):
    if isinstance(case, dict) and 'dfs-history' in case:
        dfs_history(ctx, case['dfs-history'], case.get('bound', 1), case.get('detach', False))
        return
    if isinstance(case, dict) and case.get('scheduled'):
        probe_after_schedule(ctx, case)
        return
    replay_history(Interp(ctx), case)


def run(ctx):
    ok = run_machine(ctx, make_machine(ctx), ctx.pick(40, 500), ctx.pick(15, 25), label='machine')
    if ok:
        from props import C05
        from pbt.runner import hyp_search
        ok = hyp_search(ctx, C05.scheduled_cases(), lambda c: probe_after_schedule(ctx, c), ctx.pick(60, 1500),
                        label='scheduled-history')
    if ok:
        from pbt.runner import guarded
        plans = [(['out', 'discard'], 1, False), (['force'], 2, True)] if ctx.quick else [
            (['out', 'discard'], 2, False), (['force', 'discard'], 2, False), (['ret', 'discard'], 2, False),
            (['out', 'force'], 1, False), (['force'], 2, True), (['discard'], 2, True), (['out'], 2, True)]
        for behs, bound, detach in plans:
            def go(c):
                runs, complete = dfs_history(ctx, behs, bound, detach)
                tag = '+'.join(behs) + (':detached' if detach else '')
                ctx.extra['dfs_runs_' + tag] = runs
                ctx.extra['dfs_complete_' + tag] = bool(complete)
            if not guarded(ctx, {'dfs-history': behs, 'bound': bound, 'detach': detach}, go):
                break
