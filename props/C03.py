"""C03 - captured outputs are exactly what the executing code sent."""
import copy

from hypothesis import strategies as st

from pbt import progsim as PS, values as V, zoo
from pbt.runner import Violation, hyp_search
from props.C01 import outputs_map, open_cassette

LEVEL = 'exploration'
SHARDS = {'quick': 8, 'thorough': 16}
RULE = ('Pairs (recorded program P, replayed program P\'): P is a Hypothesis-generated program (instance/static outputs, '
        'output data handlers, bursts of up to 21 calls of one alias, worker threads with private aliases, returning or '
        'raising operation, optionally a metadata extractor that itself calls an intercepted output and input of the service); '
        'P\' is P or P after an edit script of 1-3 edits over its output calls (change argument, '
        'change kwarg, drop call, add call of an existing or new alias, swap two calls of one alias, change final '
        'result, raise instead of return); optionally the same recorder first performs other replays of the recording '
        '(successful, failing with a missing key after output calls, failing playback function). The harness journals every output call at the call site. Oracle: '
        'recorded_outputs == image of P\'s journal and playback_outputs == image of P\'\'s journal, as maps without '
        'duplicates or extras, where the image has one entry "output: <alias> #<n>.output" per call (n = per-alias '
        'ordinal from 1) holding {"args": positional args without the instance, "kwargs": kwargs} (or the data '
        'handler\'s prepared value) plus the operation entry (result, or exception by type); and the keys at which the '
        'two maps differ == the keys at which the journal images differ. Non-trivial: P\' != P, or some alias called '
        '>= 3 times. Distinct = distinct (P, edit script, cassette).')
ASSUMPTIONS = ['key text "output: <alias> #<n>.output" is pinned on purpose: it is a persisted format',
               'output decorators use fail_on_no_recorded_result=False so that edited programs can add calls',
               'no interceptions nested inside intercepted bodies (those are not captured by design)']

OP_KEY = 'output: _tape_recorder_operation #1.output'


def image(prog, outcalls, outcome):
    """Expected outputs map from the harness journal of one run."""
    counts, m = {}, {}
    for i, args, kwargs in outcalls:
        d = prog['outs'][i]
        counts[i] = counts.get(i, 0) + 1
        key = u'output: {} #{}.output'.format(d['alias'], counts[i])
        if d.get('handler') == 'wrap':
            m[key] = {'w': [list(args), dict(kwargs)], 'by': 'WrapOut'}
        else:
            m[key] = {'args': list(args), 'kwargs': dict(kwargs)}
    if outcome[0] == 'ret':
        m[OP_KEY] = {'args': [outcome[1]], 'kwargs': {}}
    elif outcome[0] == 'interrupt':
        pass    # cut short by an interrupt-style exception: the operation produced neither a result nor an exception
    else:
        m[OP_KEY] = ('EXC', outcome[1])
    return m


def norm(m):
    out = {}
    for k, v in m.items():
        if isinstance(v, dict) and isinstance(v.get('args'), list) and v['args'] and \
                isinstance(v['args'][0], BaseException):
            out[k] = ('EXC', type(v['args'][0]).__name__)
        else:
            out[k] = v
    return out


def eq(a, b):
    return a == b and type(a) is type(b)


def diff_keys(a, b):
    return sorted(k for k in set(a) | set(b) if k not in a or k not in b or not eq(a[k], b[k]))


# ---- edit scripts

def out_refs(prog):
    refs = []

    def walk(steps, worker):
        for k, s in enumerate(steps):
            if s['t'] == 'out':
                refs.append((steps, k, worker))
            elif s['t'] == 'threads':
                for ws in s['workers']:
                    walk(ws, True)
    walk(prog['steps'], False)
    return refs


def apply_edits(prog, edits):
    p = copy.deepcopy(prog)
    applied = []
    for e in edits:
        refs = out_refs(p)
        kind = e['kind']
        if kind == 'change_result':
            p['result'] = e['v']
            applied.append(kind)
        elif kind == 'raise_instead':
            p['ending'] = 'raise'
            p['ending_exc'] = V.ENDING_EXCS[e['n'] % len(V.ENDING_EXCS)]
            applied.append(kind)
        elif kind == 'add_new_alias':
            p['outs'].append({'alias': 'added.%d' % len(p['outs']), 'kind': e.get('decl_kind', 'instance'),
                              'handler': 'none', 'fail_missing': False, 'default': None})
            pos = e['n'] % (len(p['steps']) + 1)
            p['steps'].insert(pos, dict(t='out', i=len(p['outs']) - 1, a=e['v'], kw=[], beh='ret', ret=None))
            applied.append(kind)
        elif kind in ('add_discard', 'add_force'):
            # the changed code now gives up on / insists on recording at some point (discard_recording() and
            # force_sample_recording() are ordinary service calls; there is nothing to discard during a replay)
            p['steps'].insert(e['n'] % (len(p['steps']) + 1), {'t': kind[4:]})
            applied.append(kind)
        elif not refs:
            continue
        else:
            steps, k, worker = refs[e['n'] % len(refs)]
            if kind == 'change_arg':
                steps[k]['a'] = e['v']
            elif kind == 'change_kw':
                steps[k]['kw'] = [['p', e['v']]]
            elif kind == 'drop':
                del steps[k]
            elif kind == 'add':
                new = copy.deepcopy(steps[k])
                new['a'] = e['v']
                new.pop('sync', None)
                steps.insert(k + (e['n'] % 2), new)
            elif kind == 'swap':
                same = [j for j, s in enumerate(steps) if s['t'] == 'out' and s['i'] == steps[k]['i'] and j != k]
                if not same:
                    continue
                j = same[e['n'] % len(same)]
                steps[k], steps[j] = steps[j], steps[k]
            applied.append(kind)
    return PS.assign_sids(p), applied


def run_pair(ctx, case):
    from playback.tape_recorder import TapeRecorder
    P = PS.assign_sids(PS.normalise_inputs(copy.deepcopy(case['prog'])))
    P2, applied = apply_edits(P, case['edits'])
    z, rec_cas, fetch_cas = open_cassette(case['cassette'])
    classes = []
    try:
        rec = TapeRecorder(rec_cas)
        rec.enable_recording()
        W = PS.World('LIVE')
        cls = PS.build_class(P, rec, W)
        classes.append(cls)
        live = PS.execute(cls, P)
        if live[0] == 'exc' and live[1] != P.get('ending_exc', 'Err'):
            raise Violation('operation raised %s into its caller: %r' % (live[1], live[2]), 'live-unexpected-exception')
        rid = W.recording_ids[-1]
        if rec_cas is not fetch_cas:
            rec_cas.close()
            rec.tape_cassette = fetch_cas
        # optional history on the same recorder before the measured replay (each must leave nothing behind)
        for prior in case.get('prior', []):
            Wp = PS.World('REPLAY')
            if prior == 'failed_replay':
                pp = PS.assign_sids({'klass': 'instance', 'outs': [dict(d) for d in P['outs']] or
                                     [{'alias': 'prior.out', 'kind': 'instance', 'handler': 'none',
                                       'fail_missing': False, 'default': None}],
                                     'ins': [{'alias': 'never-recorded', 'kind': 'instance', 'capture': 'all',
                                              'handler': 'none', 'resolver': False}],
                                     'steps': [{'t': 'out', 'i': 0, 'a': 'stale', 'kw': [], 'beh': 'ret', 'ret': None},
                                               {'t': 'out', 'i': 0, 'a': 'stale2', 'kw': [], 'beh': 'ret', 'ret': None},
                                               {'t': 'in', 'i': 0, 'a': 1, 'b': 2, 'usekw': False, 'beh': 'ret',
                                                'ret': 1, 'name': 'n1'}],
                                     'ending': 'return', 'result': None, 'extractor': 'none'})
                for st_ in pp['steps']:
                    st_['reraise_framework'] = True
            else:
                pp = P
            clsp = PS.build_class(pp, rec, Wp)
            classes.append(clsp)

            def prior_pf(recording, clsp=clsp, pp=pp, prior=prior):
                if prior == 'pf_raises':
                    raise RuntimeError('playback function fails on purpose')
                out = PS.execute(clsp, pp)
                if out[0] == 'exc':
                    raise out[2]

            try:
                rec.play(rid, prior_pf)
            except Exception:  # pylint: disable=broad-except
                pass
            except V.Interrupt:
                pass    # a prior replay whose program does not swallow a recorded interrupt-style exception
        W2 = PS.World('REPLAY')
        cls2 = PS.build_class(P2, rec, W2)
        classes.append(cls2)
        res = {}

        def playback_function(recording):
            res['r'] = PS.execute(cls2, P2)
            if res['r'][0] == 'exc':
                raise res['r'][2]
            # (an edited program may no longer swallow a replayed interrupt-style exception; the harness' playback
            # function contains it, so that play() returns what was captured until then)

        try:
            pb = rec.play(rid, playback_function)
        except Exception as e:  # pylint: disable=broad-except
            raise Violation('play() raised %s: %s (edits %r)' % (type(e).__name__, e, applied), 'replay-raises')
        rep = res.get('r')
        if rep is None:
            raise Violation('playback function did not run', 'replay')
        if rep[0] == 'exc' and rep[1] not in (P2.get('ending_exc', 'Err'), 'OperationExceptionDuringPlayback'):
            raise Violation('replayed operation raised %s: %r' % (rep[1], rep[2]), 'replay-raises')
        rep_outcome = rep if rep[0] == 'ret' else ('interrupt',) if rep[0] == 'interrupt' else (
            'exc', P2.get('ending_exc', 'Err'))
        want_rec = image(P, W.outcalls, live)
        want_pb = image(P2, W2.outcalls, rep_outcome)
        got_rec = norm(outputs_map(pb.recorded_outputs, 'recorded_outputs'))
        got_pb = norm(outputs_map(pb.playback_outputs, 'playback_outputs'))
        d = diff_keys(got_rec, want_rec)
        if d:
            raise Violation('recorded_outputs differ from what the recorded code sent at %r: got %r, sent %r' % (
                d[:3], [got_rec.get(k, '<absent>') for k in d[:3]], [want_rec.get(k, '<absent>') for k in d[:3]]),
                            'recorded-outputs')
        d = diff_keys(got_pb, want_pb)
        if d:
            raise Violation('playback_outputs differ from what the replayed code sent at %r: got %r, sent %r '
                            '(edits %r)' % (d[:3], [got_pb.get(k, '<absent>') for k in d[:3]],
                                            [want_pb.get(k, '<absent>') for k in d[:3]], applied), 'playback-outputs')
        if diff_keys(got_rec, got_pb) != diff_keys(want_rec, want_pb):
            raise Violation('difference between recorded and playback outputs is at %r, but the edits affect %r' % (
                diff_keys(got_rec, got_pb), diff_keys(want_rec, want_pb)), 'difference-localisation')
    finally:
        for c in classes:
            PS.forget_class(c)
        z.__exit__(None, None, None)
    per_alias = {}
    for i, _, _ in W.outcalls:
        per_alias[i] = per_alias.get(i, 0) + 1
    many = bool(per_alias) and max(per_alias.values()) >= 3
    shapes, _, _ = PS.shape_classes(P)
    ctx.case(case, bool(applied) or many, classes=tuple('edit:' + a for a in sorted(set(applied))) + (
        ('edit:none',) if not applied else ()) + tuple('shape:' + s for s in sorted(shapes) if s in (
            'threads', 'out-handler', 'out:static', 'alias>9calls', 'op-raises', 'out-raises')) + (
                'differs' if diff_keys(want_rec, want_pb) else 'same-outputs', 'cassette:' + case['cassette']) +
             tuple('prior:' + x for x in case.get('prior', [])))


edit = st.fixed_dictionaries({
    'kind': st.sampled_from(['change_arg', 'change_kw', 'drop', 'add', 'add_new_alias', 'swap', 'change_result',
                             'raise_instead', 'add_discard', 'add_force']),
    'n': st.integers(0, 30), 'v': V.small_values, 'decl_kind': st.sampled_from(['instance', 'static'])})


def cases():
    progs = PS.programs(values=V.small_values, in_behs=('ret', 'ret', 'raise'),
                        out_extra={'fail_missing': st.just(False), 'default': st.none()},
                        extractors=('none', 'none', 'ok', 'calls_output'), swallowed_interrupts=True,
                        ending_excs=V.ENDING_EXCS)
    priors = st.lists(st.sampled_from(['failed_replay', 'ok_replay', 'pf_raises']), max_size=2)
    return st.fixed_dictionaries({'prog': progs, 'prior': st.one_of(st.just([]), st.just([]), priors), 'edits': st.one_of(st.just([]), st.lists(edit, min_size=1, max_size=3), st.lists(edit, min_size=1, max_size=3)),
                                  'cassette': st.sampled_from(['memory', 'memory', 'file', 's3', 'async'])})


def replay(ctx, case):
    run_pair(ctx, case)


def run(ctx):
    hyp_search(ctx, cases(), lambda c: run_pair(ctx, c), ctx.pick(300, 4000), label='pairs')
