"""C05 - a recording is persisted whole or not at all, and finalised exactly once."""
import copy

from hypothesis import strategies as st

from pbt import progsim as PS, faultrun as FR, values as V
from pbt.runner import Violation, hyp_search

LEVEL = 'fault_enumeration'
SHARDS = {'quick': 8, 'thorough': 16}
RULE = ('Hypothesis generates a sequential program (<= 6 steps) and recording parameters (sampling rate 0 / 0.5 / 1, '
        'ignore-forcing, copy-on-interception); the harness enumerates every single placement of every fault kind at '
        'every step - capture faults (key cannot be built, data handler raises), explicit discards from the operation '
        'and from inside intercepted bodies, forced sampling, ordinary exceptions and interrupt-style (BaseException) '
        'terminations in the operation and inside intercepted bodies, an intercepted body that discards the recording and '
        'hands the work to another decorated operation, interpreter exits, a call of another decorated operation of the same '
        'recorder (refused while a recording runs; the operation copes and goes on), unserialisable values, failing save, failing '
        'extractor - plus a seeded sample of fault pairs. Oracle over the spy cassette log grouped by recording id: '
        'every created recording has exactly one finalisation (save xor abort); if a capture failed or a discard '
        'happened the finalisation is abort and the serialised store is unchanged; afterwards every recording present '
        'in the store and not flagged incomplete is replayed with the same program and must complete without a '
        'missing-key error, with no wrapped body executed; a following fault-free operation on the same recorder and thread is '
        'saved and replays as well. Non-trivial: fault or termination at step >= 2 after >= 1 '
        'successful capture, or a fault pair. A second part runs threaded programs (2-3 workers that discard, force sampling '
        'and intercept concurrently) under the deterministic scheduler and requires exactly one finalisation there too. '
        'Distinct = distinct (program, placement, parameters, cassette).')
ASSUMPTIONS = ['fault enumeration runs on a single operation thread; concurrent discards from worker threads are '
               'explored separately under the deterministic scheduler (sampled PCT / random schedules)',
               'spy = thin subclass of the real cassette logging create/save/abort before delegating']

PARAMS = [None, None, {'sampling_rate': 0}, {'sampling_rate': 1}, {'copy_data_on_intercepion': True},
          {'sampling_rate': 0, 'ignore_enforced_sampling': True}, {'sampling_rate': 0.5}]
INC = '_tape_recorder_incomplete_recording'


def check_case(ctx, case):
    from playback.exceptions import RecordingKeyError
    prog, flags = FR.apply_faults(case['prog'], case['faults'])
    if case.get('params'):
        prog['params'] = case['params']
    eff = FR.model_effects(prog)
    what = 'faults=%r params=%r' % (case['faults'], case.get('params'))
    flags['prior'] = case.get('prior')
    fr = FR.FaultRun(prog, flags, enabled=True, cassette=case.get('cassette', 'memory'), seed=case.get('seed', 3))
    try:
        # an inner operation called after the outer recording was discarded is no longer refused: it gets a
        # recording of its own (category <class>Inner), which must be finalised exactly once as well
        inner_cat = fr.cls.__name__ + 'Inner'
        all_created = [e[1] for e in fr.spy_log if e[0] == 'create']
        inner_created = [r for r in all_created if r.split('/')[0] in (inner_cat, inner_cat + '2')]
        created = [r for r in all_created if r not in inner_created]
        if len(created) != 1:
            raise Violation('operation created %d recordings: %r (%s)' % (len(created), fr.spy_log, what), 'created')
        rid = created[0]
        for r in [rid] + inner_created:
            fin = [e for e in fr.spy_log if e[0] in ('save', 'abort') and e[1] == r]
            if len(fin) != 1:
                raise Violation('recording %s finalised %d times (%r), expected exactly once (%s)' % (
                    r.split('/')[0], len(fin), [e[0] for e in fin], what), 'exactly-once')
        fin = [e for e in fr.spy_log if e[0] in ('save', 'abort') and e[1] == rid]
        stray = [e for e in fr.spy_log if e[1] not in all_created]
        if stray:
            raise Violation('cassette calls for other recordings: %r' % (stray,), 'created')
        if inner_created:
            fr.before = dict((k, v) for k, v in fr.before.items() if inner_cat not in str(k))
            fr.after = dict((k, v) for k, v in fr.after.items() if inner_cat not in str(k))
        kind = fin[0][0]
        if (eff['capture_failed'] or eff['discarded']) and kind != 'abort':
            raise Violation('recording was handed to save although %s (%s)' % (
                'a capture failed' if eff['capture_failed'] else 'it was discarded', what), 'whole-or-nothing')
        if kind == 'abort' and fr.after != fr.before:
            raise Violation('store changed although the recording was aborted (%s)' % what, 'whole-or-nothing')
        if (eff['capture_failed'] or eff['discarded']) and fr.after != fr.before:
            raise Violation('store changed although a capture failed / the recording was discarded (%s)' % what,
                            'whole-or-nothing')
        replayed = 0
        # an operation that an intercepted body invoked after giving up on the outer recording: whatever was saved for
        # it and claims to be complete replays
        for r in inner_created:
            if r.split('/')[0] != inner_cat + '2' or ('save', r) not in [(e[0], e[1]) for e in fr.spy_log]:
                continue
            if fr.cas.get_recording_metadata(r).get(INC):
                continue
            try:
                fr.W.world = 'REPLAY'
                fr.rec.play(r, lambda recording: fr.W.inner2_cls().execute())
            except RecordingKeyError as e:
                raise Violation('the recording of an operation invoked from inside an intercepted function (after that '
                                'function discarded the outer recording) was saved as complete but does not replay: %s '
                                '(%s)' % (e, what), 'saved-replays')
            finally:
                fr.W.world = 'LIVE'
            replayed += 1
        # a later, fault-free operation of the same service on the same recorder and thread is captured whole as well
        clean, _ = FR.apply_faults(case['prog'], [])
        clean_prog = PS.assign_sids(PS.normalise_inputs(clean))
        clean_prog['class_name'] = fr.cls.__name__ + 'Next'
        Wn = PS.World('LIVE')
        fr.cas.fail_save = False
        n0 = len(fr.cas.spy_log)
        next_cls = PS.build_class(clean_prog, fr.rec, Wn)
        try:
            out_next = PS.execute(next_cls, clean_prog)
            if out_next[0] == 'exc' and out_next[1] not in ('Err', clean_prog.get('ending_exc', 'Err')):
                raise Violation('the next operation on the same recorder failed with %s: %s (%s)' % (
                    out_next[1], out_next[2], what), 'next-operation')
            log_next = fr.cas.spy_log[n0:]
            if [e[0] for e in log_next] != ['create', 'save']:
                raise Violation('the next, fault-free operation on the same recorder was finalised as %r (%s)' % (
                    [e[0] for e in log_next], what), 'next-operation')
            Wn.world, Wn.journal, Wn.sites = 'REPLAY', [], {}

            for st_ in PS.iter_steps(clean_prog['steps']):
                if st_['t'] in ('in', 'out'):
                    st_['reraise_framework'] = True

            def next_pf(recording):
                o = PS.execute(next_cls, clean_prog)
                if o[0] != 'ret':
                    raise o[2]

            try:
                fr.rec.play(log_next[0][1], next_pf)
            except RecordingKeyError as e:
                raise Violation('the recording of the next, fault-free operation on the same recorder does not replay: '
                                '%s (%s)' % (e, what), 'next-operation')
            if [j for j in Wn.journal if j[0] == 'body']:
                raise Violation('replay of the next operation executed wrapped bodies (%s)' % what, 'next-operation')
        finally:
            PS.forget_class(next_cls)
        # replay what is in the store
        for cat in set([fr.cls.__name__]):
            for stored in list(fr.cas.iter_recording_ids(cat)):
                md = fr.cas.get_recording_metadata(stored)
                if md.get(INC):
                    continue
                fr.W.world, fr.W.journal, fr.W.sites = 'REPLAY', [], {}
                # the replayed program lets framework errors (missing key) through instead of handling them
                for st_ in PS.iter_steps(prog['steps']):
                    if st_['t'] in ('in', 'out'):
                        st_['reraise_framework'] = True
                # an interrupt from outside (shutdown signal, Ctrl-C, watchdog) is not part of the code: a recording
                # that claims to be complete must replay on the code WITHOUT it
                external = ('op_interrupt', 'op_exit0', 'op_exit', 'op_ctrl_c')
                replay_prog, replay_cls, replay_W = prog, fr.cls, fr.W
                if any(f['kind'] in external for f in case['faults']):
                    replay_prog, _ = FR.apply_faults(case['prog'], [f for f in case['faults'] if f['kind'] not in external])
                    if case.get('params'):
                        replay_prog['params'] = case['params']
                    replay_prog['class_name'] = fr.cls.__name__ + 'Uninterrupted'
                    for st_ in PS.iter_steps(replay_prog['steps']):
                        if st_['t'] in ('in', 'out'):
                            st_['reraise_framework'] = True
                    replay_W = PS.World('REPLAY')
                    replay_cls = PS.build_class(replay_prog, fr.rec, replay_W)

                def playback_function(recording):
                    out = PS.execute(replay_cls, replay_prog)
                    if out[0] != 'ret':
                        raise out[2]

                try:
                    fr.rec.play(stored, playback_function)
                except RecordingKeyError as e:
                    raise Violation('saved, complete recording does not replay on unchanged code: %s (%s)' % (e, what),
                                    'saved-replays')
                except (V.Interrupt, SystemExit, KeyboardInterrupt):
                    pass    # the replayed program ends by its interrupt again; how such a run is flagged is C18's matter
                bodies = [j for j in replay_W.journal if j[0] == 'body']
                if replay_cls is not fr.cls:
                    PS.forget_class(replay_cls)
                if bodies:
                    raise Violation('replay of the saved recording executed wrapped bodies %r (%s)' % (bodies[:3], what),
                                    'saved-replays')
                replayed += 1
    finally:
        fr.close()
    return kind, replayed, eff


def nontrivial(prog, faults):
    if len(faults) >= 2:
        return True
    for f in faults:
        if f.get('at', 0) >= 1 and any(s['t'] in ('in', 'out') for s in prog['steps'][:f['at']]):
            return True
    return False


def enumerate_case(ctx, base):
    prog = base['prog']
    for fl in FR.placements(ctx, prog, base['pair_seed'], extra=('exits', 'op_in_body')):
        case = {'prog': prog, 'faults': fl, 'params': base['params'], 'cassette': base['cassette'], 'seed': base['seed'],
                'prior': base.get('prior')}
        try:
            kind, replayed, eff = check_case(ctx, case)
        except Violation as v:
            v.case = case
            raise
        ctx.case(case, nontrivial(prog, fl), classes=tuple('fault:' + f['kind'] for f in fl) + (
            'final:' + kind, 'replayed:%d' % replayed, 'faults:%d' % len(fl), 'ends:' + eff['terminated'],
            'cassette:' + base['cassette']))


# ---- exactly-once also when worker threads of the operation discard concurrently (deterministic scheduler)

def finalised_once(spy_log):
    created = [e[1] for e in spy_log if e[0] == 'create']
    for rid in created:
        fin = [e[0] for e in spy_log if e[0] in ('save', 'abort') and e[1] == rid]
        if len(fin) != 1:
            raise Violation('recording finalised %d times (%r) when worker threads of the operation discard / force / '
                            'intercept concurrently' % (len(fin), fin), 'exactly-once-threads')


def run_scheduled(ctx, case):
    from props import C04
    C04.run_scheduled(ctx, case, extra_check=finalised_once)


def scheduled_cases():
    from props import C04

    @st.composite
    def cases(draw):
        c = draw(C04.scheduled_cases())
        # make several workers discard at the same time
        workers = c['prog']['steps'][0]['workers']
        for ws in workers:
            if ws and draw(st.booleans()):
                ws[0]['beh'] = 'discard'
        return c
    return cases()


def replay(ctx, case):
    if case.get('scheduled'):
        run_scheduled(ctx, case)
    elif 'faults' in case:
        check_case(ctx, case)
    else:
        enumerate_case(ctx, case)


def run(ctx):
    bases = st.fixed_dictionaries({'prog': FR.with_nested_operation(FR.base_programs()), 'params': st.sampled_from(PARAMS),
                                   'pair_seed': st.integers(0, 10 ** 6), 'seed': st.integers(0, 50),
                                   'cassette': st.sampled_from(['memory', 'memory', 'file', 's3']),
                                   'prior': st.sampled_from([None, None, ['record'], ['record', 'play']])})
    ok = hyp_search(ctx, bases, lambda b: enumerate_case(ctx, b), ctx.pick(30, 200), label='faults')
    if ok:
        hyp_search(ctx, scheduled_cases(), lambda c: run_scheduled(ctx, c), ctx.pick(60, 1500), label='scheduled')
