"""C20 - file interception preserves file bytes and honours the size limit."""
import binascii
import os
import shutil
import tempfile

from hypothesis import strategies as st

from pbt.runner import Violation, hyp_search, guarded
from props.C01 import open_cassette

LEVEL = 'exploration'
SHARDS = {'quick': 4, 'thorough': 16}
RULE = ('Byte contents (empty, arbitrary binary incl. NUL / 0x80-0xFF / newlines / CRLF, the placeholder text itself, '
        'sizes limit-1, limit, limit+1 for explicit limits of n bytes expressed as n/2^20 MB, the environment-variable '
        'limit 0 with 0/1-byte files, the 1 MB environment limit with files of 2^20-1, 2^20, 2^20+1 bytes, and files of '
        'several MB under the default 500 MB limit and under 2 / 4 MB environment limits; explicit limits also with the '
        'environment variable set to a different value - the explicit limit counts) x path '
        'passed positionally or by keyword x instance and static interceptions x input and output file data handlers x '
        'cassette type (in-memory, file, S3, async) x replay path empty or already holding a file of the same / another '
        'size; also a kernel-generated file (/proc/version, reported size 0) well within the limit; always through a full program: record -> cassette -> fetch -> '
        'replay. Oracle: the file found at the path named by the REPLAYED call holds the recorded bytes (<= limit) or '
        'the documented placeholder (> limit); restore_output_from_recording of the recorded and of the replayed output '
        'gives a holder with those bytes / the placeholder and the recorded path, and to_file writes them; above the '
        'limit the stored recording holds the placeholder and not the content. Non-trivial: content with a byte >= 0x80 '
        'or a newline, or a size within 1 byte of the limit. Distinct = distinct case.')
ASSUMPTIONS = ['size limit semantics: strictly above the limit is not recorded (limit itself is)',
               'environment variable limit given as a whole number of MB (fractional values: rounding is not specified)']

ENV = 'PLAYBACK_INTERCEPTED_FILE_SIZE_LIMIT'
PROC_FILE = '/proc/version'


def flip(data):
    return bytes(bytearray(b ^ 0x5a for b in bytearray(data)))


def check_file_case(ctx, case):
    from playback.tape_recorder import TapeRecorder
    from playback.interception.files.input_file_interception import InputInterceptionFileDataHandler
    from playback.interception.files.output_file_interception import OutputInterceptionFileDataHandler, \
        InterceptedOutputFileHolder
    from playback.interception.files.file_interception import FileInterception
    placeholder = FileInterception.ABOVE_LIMIT_CONTENT
    content = binascii.unhexlify(case['content']) if 'content' in case else \
        (bytes(bytearray((i * 7 + 3) % 256 for i in range(251))) * (case['size'] // 251 + 1))[:case['size']]
    procfs = case.get('source') == 'procfs'
    if procfs:
        # a kernel-generated file: its reported size (0) says nothing about its content
        if not os.path.exists(PROC_FILE):
            ctx.exclude('no %s in this environment' % PROC_FILE)
            return
        with open(PROC_FILE, 'rb') as f:
            content = f.read()
    kw, static = case['kw'], case['static']
    old_env = os.environ.get(ENV)
    if case.get('env_limit') is not None:
        os.environ[ENV] = str(case['env_limit'])
        limit_arg = None
        limit_bytes = int(float(str(case['env_limit']))) * 1024 * 1024
    elif case.get('default_limit'):
        os.environ.pop(ENV, None)
        limit_arg = None
        limit_bytes = 500 * 1024 * 1024
    else:
        # an explicit limit; the environment variable may be set as well (to something else): the explicit one counts
        if case.get('env_also') is not None:
            os.environ[ENV] = str(case['env_also'])
        else:
            os.environ.pop(ENV, None)
        limit_bytes = case['limit_bytes']
        limit_arg = limit_bytes / (1024.0 * 1024.0)
    work = tempfile.mkdtemp(prefix='verif-c20-')
    z, rec_cas, fetch_cas = open_cassette(case['cassette'])
    try:
        rec = TapeRecorder(rec_cas)
        rec.enable_recording()
        state = {'world': 'LIVE', 'bodies': []}
        off = 0 if static else 1
        in_handler = InputInterceptionFileDataHandler(off, 'path', intercepted_size_limit=limit_arg)
        out_handler = OutputInterceptionFileDataHandler(0, 'path', intercepted_size_limit=limit_arg)

        def fetch_body(path):
            state['bodies'].append(('fetch', state['world']))
            if procfs:
                os.symlink(PROC_FILE, path)
                return path
            with open(path, 'wb') as f:
                f.write(content)
            return path

        def publish_body(path):
            state['bodies'].append(('publish', state['world']))
            return None

        ns = {}
        if static:
            ns['fetch'] = staticmethod(rec.static_intercept_input('fetch', data_handler=in_handler, capture_args=[])(
                lambda path: fetch_body(path)))
            ns['publish'] = staticmethod(rec.static_intercept_output('publish', data_handler=out_handler)(
                lambda path: publish_body(path)))
        else:
            ns['fetch'] = rec.intercept_input('fetch', data_handler=in_handler, capture_args=[])(
                lambda self, path: fetch_body(path))
            ns['publish'] = rec.intercept_output('publish', data_handler=out_handler)(
                lambda self, path: publish_body(path))

        def execute(self, pin, pout):
            got = self.fetch(path=pin) if kw else self.fetch(pin)
            state['rid'] = rec.current_recording_id
            state['fetch_returned'] = got
            if case.get('fetch_twice'):
                # the same input (same key: the local path is not part of it) is fetched again to another path
                state['fetch2_returned'] = self.fetch(path=pin + '.b') if kw else self.fetch(pin + '.b')
            with open(pin, 'rb') as f:
                data = f.read()
            with open(pout, 'wb') as f:
                f.write(data[::-1])
            if kw:
                self.publish(path=pout)
            else:
                self.publish(pout)
            if case.get('republish'):
                # the same path is sent again after being rewritten with other bytes of the same length, within the
                # granularity of the file system's time stamps (same size, same modification time)
                before = os.stat(pout)
                with open(pout, 'wb') as f:
                    f.write(flip(data[::-1]))
                os.utime(pout, ns=(before.st_atime_ns, before.st_mtime_ns))
                if kw:
                    self.publish(path=pout)
                else:
                    self.publish(pout)
            return len(data)

        ns['execute'] = rec.operation()(execute)
        Op = type('FileOp', (object,), ns)
        p1, o1 = os.path.join(work, 'in1'), os.path.join(work, 'out1')
        n = Op().execute(p1, o1)
        if n != len(content):
            raise Violation('live operation saw %d bytes, file has %d' % (n, len(content)), 'transparency')
        rid = state.get('rid')
        if rec_cas is not fetch_cas:
            rec_cas.close()
            rec.tape_cassette = fetch_cas
        stored = fetch_cas.get_recording(rid)
        over = len(content) > limit_bytes
        exp_in = placeholder if over else content
        # stored form
        in_key = [k for k in stored.get_all_keys() if k.startswith('input: fetch')]
        if len(in_key) != 1:
            raise Violation('expected one recorded input, keys %r' % (list(stored.get_all_keys()),), 'stored')
        raw = stored.get_data(in_key[0])['value']
        if over and raw['file_content'] != placeholder:
            raise Violation('file of %d bytes is above the limit of %d bytes but its content was recorded: %r' % (
                len(content), limit_bytes, raw['file_content'][:40]), 'limit')
        if not over and raw['file_content'] == placeholder and content != b'':
            raise Violation('file of %d bytes is within the limit of %d bytes but only the placeholder was recorded' % (
                len(content), limit_bytes), 'limit')
        # replay at other paths
        state['world'] = 'REPLAY'
        p2, o2 = os.path.join(work, 'in2'), os.path.join(work, 'out2')
        pre = case.get('preexisting')
        if pre is not None:
            # something is already at the path the replayed call names (left over from another run)
            n_pre = {'same-size': len(exp_in if len(content) > limit_bytes else content), 'shorter': 1,
                     'longer': len(content) + 3}[pre]
            with open(p2, 'wb') as f:
                f.write(b'\xee' * n_pre)
        res = {}
        pb = rec.play(rid, lambda r: res.setdefault('n', Op().execute(p2, o2)))
        if [b for b in state['bodies'] if b[1] == 'REPLAY']:
            raise Violation('wrapped bodies ran during replay: %r' % (state['bodies'],), 'body-ran-in-replay')
        if not os.path.exists(p2):
            raise Violation('replay did not create the input file at the path named by the replayed call (%s)' % p2,
                            'input-path')
        with open(p2, 'rb') as f:
            got_in = f.read()
        if got_in != exp_in:
            raise Violation('replayed input file holds %r, expected %r (content %d bytes, limit %d bytes)' % (
                got_in[:60], exp_in[:60], len(content), limit_bytes), 'input-bytes')
        if state['fetch_returned'] != p2:
            raise Violation('replayed input call returned %r, the replayed call named %r' % (state['fetch_returned'], p2),
                            'input-path')
        if case.get('fetch_twice'):
            if state.get('fetch2_returned') != p2 + '.b':
                raise Violation('second replayed fetch of the input returned %r, the call named %r' % (
                    state.get('fetch2_returned'), p2 + '.b'), 'input-path')
            if not os.path.exists(p2 + '.b'):
                raise Violation('the second replayed fetch of the same input did not create the file at the path it '
                                'named (%s)' % (p2 + '.b'), 'input-path')
            with open(p2 + '.b', 'rb') as f:
                got_in2 = f.read()
            if got_in2 != exp_in:
                raise Violation('file restored by the second fetch holds %r, expected %r' % (got_in2[:60], exp_in[:60]),
                                'input-bytes')
        with open(p1, 'rb') as f:
            if f.read() != content:
                raise Violation('replay overwrote the file at the recorded path', 'input-path')
        # outputs
        helper = OutputInterceptionFileDataHandler(0, 'path')
        ro = [o for o in pb.recorded_outputs if 'publish' in o.key]
        po = [o for o in pb.playback_outputs if 'publish' in o.key]
        n_pub = 2 if case.get('republish') else 1
        if len(ro) != n_pub or len(po) != n_pub:
            raise Violation('expected %d publish output(s) on each side, got %d / %d' % (n_pub, len(ro), len(po)), 'outputs')
        ro.sort(key=lambda o: o.key)
        po.sort(key=lambda o: o.key)
        exp_rec_out = placeholder if over else content[::-1]
        rin = exp_in[::-1]
        exp_pb_out = placeholder if len(rin) > limit_bytes else rin
        checks = [('recorded', ro[0], exp_rec_out, o1), ('replayed', po[0], exp_pb_out, o2)]
        if n_pub == 2:
            checks += [('recorded (second send of the path)', ro[1], placeholder if over else flip(content[::-1]), o1),
                       ('replayed (second send of the path)', po[1],
                        placeholder if len(rin) > limit_bytes else flip(rin), o2)]
        for what, o, want, path in checks:
            holder = helper.restore_output_from_recording(o.value)
            # restoring is a read: doing it again gives the same holder (an extractor runs more than once per output)
            holder_again = helper.restore_output_from_recording(o.value)
            if not isinstance(holder_again, InterceptedOutputFileHolder) or \
                    holder_again.file_content != holder.file_content or \
                    holder_again.output_file_path != holder.output_file_path:
                raise Violation('restoring the %s output a second time gave %r, the first time %r' % (
                    what, getattr(holder_again, 'file_content', holder_again), holder.file_content), 'output-bytes')
            if not isinstance(holder, InterceptedOutputFileHolder):
                raise Violation('restore_output_from_recording returned %r' % (holder,), 'output-holder')
            if holder.file_content != want:
                raise Violation('%s output holder has %r, the file sent held %r (content %d bytes, limit %d)' % (
                    what, holder.file_content[:60], want[:60], len(content), limit_bytes), 'output-bytes')
            if holder.output_file_path != path:
                raise Violation('%s output holder path %r, the call named %r' % (what, holder.output_file_path, path),
                                'output-path')
            dst = os.path.join(work, 'restored-' + what.split(' ')[0])
            holder.to_file(dst)
            with open(dst, 'rb') as f:
                if f.read() != want:
                    raise Violation('to_file wrote different bytes', 'output-bytes')
    finally:
        z.__exit__(None, None, None)
        shutil.rmtree(work, ignore_errors=True)
        if old_env is None:
            os.environ.pop(ENV, None)
        else:
            os.environ[ENV] = old_env
    near = abs(len(content) - limit_bytes) <= 1
    binary = any(b >= 0x80 or b in (10, 13) for b in bytearray(content[:4096]))
    ctx.case(case, near or binary, classes=(
        'cassette:' + case['cassette'], 'kw' if kw else 'positional', 'static' if static else 'instance',
        'over-limit' if over else 'within-limit', 'explicit+env' if case.get('env_also') is not None else
        'env-limit' if case.get('env_limit') is not None else 'default-limit' if case.get('default_limit') else
        'explicit-limit', 'size:>1MB' if len(content) > 2 ** 20 else 'size:<=1MB',
        'size:near-limit' if near else 'size:other', 'source:procfs' if procfs else 'source:regular', 'preexisting:%s' % case.get('preexisting'),
        'path-sent-twice' if case.get('republish') else 'path-sent-once',
        'input-fetched-twice' if case.get('fetch_twice') else 'input-fetched-once', 'empty' if not content else 'nonempty'))


PLACEHOLDER_HEX = binascii.hexlify(b'above interception limit').decode()


@st.composite
def cases(draw):
    limit = draw(st.integers(0, 48))
    kind = draw(st.sampled_from(['binary', 'binary', 'boundary', 'boundary', 'placeholder', 'text', 'env0', 'procfs']))
    case = {'kw': draw(st.booleans()), 'static': draw(st.booleans()),
            'cassette': draw(st.sampled_from(['memory', 'memory', 'file', 's3', 'async']))}
    if kind == 'procfs':
        # within the limit whatever size is looked at (reported 0 bytes, content well under 1 MB)
        case['source'] = 'procfs'
        case.update(draw(st.sampled_from([{'default_limit': True}, {'env_limit': 1}, {'limit_bytes': 2 ** 20}])))
        content = b''
    elif kind == 'env0':
        case['env_limit'] = draw(st.sampled_from([0, '0', '0.0']))
        content = draw(st.binary(max_size=2))
    elif kind == 'binary':
        content = draw(st.binary(max_size=60))
        case['limit_bytes'] = limit
    elif kind == 'boundary':
        size = max(0, limit + draw(st.sampled_from([-1, 0, 1])))
        content = draw(st.binary(min_size=size, max_size=size))
        case['limit_bytes'] = limit
    elif kind == 'placeholder':
        content = b'above interception limit'
        case['limit_bytes'] = draw(st.sampled_from([23, 24, 25, 48]))
    else:
        content = draw(st.text(alphabet=u'ab\n\r\t é', max_size=20)).encode('utf-8')
        case['limit_bytes'] = limit
    if 'limit_bytes' in case:
        case['env_also'] = draw(st.sampled_from([None, None, 0, 500, 1]))
    case['fetch_twice'] = kind != 'procfs' and draw(st.sampled_from([False, False, True]))
    case['republish'] = draw(st.sampled_from([False, False, True]))
    case['preexisting'] = draw(st.sampled_from([None, None, 'same-size', 'same-size', 'shorter', 'longer']))
    case['content'] = binascii.hexlify(content).decode()
    return case


def replay(ctx, case):
    check_file_case(ctx, case)


def run(ctx):
    ok = hyp_search(ctx, cases(), lambda c: check_file_case(ctx, c), ctx.pick(400, 2000), label="files")
    if ok and ctx.shard == 0:
        # the 1 MB boundary of the environment-variable limit (content is a deterministic byte pattern)
        sizes = [2 ** 20 - 1, 2 ** 20, 2 ** 20 + 1] if ctx.quick else [2 ** 20 - 1, 2 ** 20, 2 ** 20 + 1, 2 ** 21,
                                                                     2 ** 21 + 1]
        for size in sizes:
            for env in ([1] if ctx.quick else [1, '1.0', 2]):
                for cassette in (['memory'] if ctx.quick else ['memory', 'file', 's3']):
                    case = {'size': size, 'env_limit': env, 'kw': size % 2 == 0, 'static': False, 'cassette': cassette}
                    guarded(ctx, case, lambda c: check_file_case(ctx, c))
        # files larger than 1 MB that the limit still allows (documented default limit 500 MB, and a 2 / 4 MB env limit)
        big = [{'size': 2 ** 20 + 1, 'env_limit': 2}, {'size': 3 * 2 ** 20 + 5, 'default_limit': True}]
        if not ctx.quick:
            big += [{'size': 2 ** 21 + 7, 'env_limit': 4}, {'size': 2 ** 20 + 2, 'default_limit': True},
                    {'size': 5 * 2 ** 20 + 1, 'default_limit': True}]
        for n, b in enumerate(big):
            case = dict(b, kw=bool(n % 2), static=bool(n % 3 == 0), cassette=['memory', 'file', 's3'][n % 3])
            guarded(ctx, case, lambda c: check_file_case(ctx, c))
