"""C17 - the sampling policy alone decides which recordings are kept."""
import itertools
import math

from hypothesis import strategies as st

from pbt import values as V, zoo, fakes3
from pbt.runner import Violation, hyp_search, guarded

LEVEL = 'exploration'
SHARDS = {'quick': 1, 'thorough': 4}
RULE = ('(i) exhaustive decision table: skipped x rate in {-1, 0, 0.3, 1, 1.5} x forcing (none / from the operation / '
        'from inside an intercepted body) x ignore-forcing x discard (none / from the operation / from inside a body) x '
        'outcome (return / ordinary exception / interrupt) x operation kind (instance / class-level), every row run '
        'against a spy cassette, plus pairs of decorated operation classes where one extends the other with different '
        'parameters; (ii) long seeded histories at fractional rates {0.1, 0.5, 0.9}: the same seed twice, '
        'paired histories that differ only in operation content and outcome, the same histories with every operation on '
        'its own thread and on a pool of three threads, and Hypothesis-generated histories mixing '
        'classes with different parameters where forced runs are followed by unforced runs of other classes; (iii) the '
        'S3 cassette with a size-based sampling calculator returning the same ratios, observed as bucket writes. '
        'Oracle: skipped => no recording created; discard => aborted; forced and not ignoring => saved; rate >= 1 => '
        'saved; rate <= 0 => aborted; fractional: identical decision sequences for equal seeds and for paired '
        'histories, kept fraction within 5 sigma of the rate; forcing never leaks into a later run. The oracle does not '
        'mirror the generator draw by draw. Non-trivial: table row with >= 2 interacting factors; history with >= 1000 '
        'fractional decisions; generated mixed history with a forced run followed by an unforced one. Distinct = '
        'distinct row / history description.')
ASSUMPTIONS = ['kept-fraction bound is 5 sigma of a binomial with fixed seeds (deterministic on an unchanged tree)',
               'rate 0 means "never" (a uniform draw equals 0.0 with probability 2^-53)']


def null_spy():
    """Cassette that stores nothing: decisions are what reaches save/abort."""
    from playback.tape_cassette import TapeCassette
    from playback.recordings.memory.memory_recording import MemoryRecording

    class NullSpy(TapeCassette):
        def __init__(self):
            self.log = []
            self.n = 0

        def create_new_recording(self, category):
            self.n += 1
            self.log.append('create')
            return MemoryRecording('%s/%d' % (category, self.n))

        def _save_recording(self, recording):
            pass

        def save_recording(self, recording):
            self.log.append('save')
            recording.close()

        def abort_recording(self, recording=None):
            self.log.append('abort')
            recording.close()

        def get_recording(self, recording_id):
            raise NotImplementedError

        def iter_recording_ids(self, *a, **k):
            return iter(())

        def extract_recording_category(self, recording_id):
            return recording_id.split('/')[0]

    return NullSpy()


def make_class(rec, name, params, klass='instance'):
    """Operation whose behaviour is given per call by a script dict:
    force: none|op|body, discard: none|op|body, outcome: return|raise|interrupt, content: int."""
    from playback.tape_recorder import RecordingParameters

    class Op(object):
        script = None

        def body(self):
            s = type(self).script
            out = []
            for i in range(s.get('content', 0) % 3):
                out.append(self.inp(i))
            if s.get('content', 0) % 7 in (3, 5):
                try:
                    self.inp('boom')
                except V.Err2:
                    out.append('caught')
            if s.get('force') == 'op':
                rec.force_sample_recording()
            if s.get('discard') == 'op':
                rec.discard_recording()
            if s.get('force') == 'body' or s.get('discard') == 'body':
                out.append(self.inp('special'))
            self.out(s.get('content', 0))
            if s['outcome'] == 'raise':
                raise V.Err('scripted')
            if s['outcome'] == 'interrupt':
                raise V.Interrupt('scripted')
            return out

        @rec.intercept_input('c17.in')
        def inp(self, x):
            s = type(self).script
            if x == 'special':
                if s.get('force') == 'body':
                    rec.force_sample_recording()
                if s.get('discard') == 'body':
                    rec.discard_recording()
            if x == 'boom':
                raise V.Err2('intercepted input fails')
            return x

        @rec.intercept_output('c17.out')
        def out(self, x):
            return None

    if klass == 'class':
        def execute(cls):
            return cls().body()
        Op.execute = classmethod(rec.class_operation()(execute))
    else:
        def execute(self):
            return self.body()
        Op.execute = rec.operation()(execute)
    Op.__name__ = name
    if params is not None:
        rec.recording_params(RecordingParameters(**params))(Op)
    return Op


def run_op(cls, script, klass='instance'):
    cls.script = script
    try:
        (cls if klass == 'class' else cls()).execute()
    except V.Err:
        return 'raise'
    except V.Interrupt:
        return 'interrupt'
    return 'return'


def decision(log):
    """create/save/abort log of one operation -> 'none' | 'save' | 'abort'; anything else is a violation."""
    if not log:
        return 'none'
    if log == ['create', 'save']:
        return 'save'
    if log == ['create', 'abort']:
        return 'abort'
    raise Violation('cassette saw %r for one operation' % (log,), 'finalisation')


def expected_row(row):
    if row['skipped']:
        return 'none'
    if row['discard'] != 'none':
        return 'abort'
    if row['force'] != 'none' and not row['ignore']:
        return 'save'
    if row['rate'] >= 1:
        return 'save'
    if row['rate'] <= 0:
        return 'abort'
    return 'either'


def check_row(ctx, row):
    from playback.tape_recorder import TapeRecorder
    cas = null_spy()
    rec = TapeRecorder(cas, random_seed=row.get('seed', 11))
    rec.enable_recording()
    params = {'sampling_rate': row['rate'], 'ignore_enforced_sampling': row['ignore'], 'skipped': row['skipped']}
    cls = make_class(rec, 'RowOp', params, row['klass'])
    script = {'force': row['force'], 'discard': row['discard'], 'outcome': row['outcome'], 'content': row['content']}
    got_outcome = run_op(cls, script, row['klass'])
    if got_outcome != row['outcome']:
        raise Violation('operation ended by %s instead of %s' % (got_outcome, row['outcome']), 'transparency')
    d = decision(cas.log)
    want = expected_row(row)
    if want != 'either' and d != want:
        raise Violation('row %r: recording was %s, policy says %s' % (row, {'none': 'not started', 'save': 'saved',
                                                                             'abort': 'aborted'}[d],
                                                                      {'none': 'not started', 'save': 'saved',
                                                                       'abort': 'aborted'}[want]), 'decision-table')
    if want == 'either' and d == 'none':
        raise Violation('row %r: no recording started' % (row,), 'decision-table')
    if rec.is_recording_sample_forced:
        raise Violation('forced-sampling flag still set after the operation (%r)' % (row,), 'sticky-force')
    # forcing must not leak into the next (unforced, rate 0) run on the same recorder
    cls2 = make_class(rec, 'NextOp', {'sampling_rate': 0}, 'instance')
    del cas.log[:]
    run_op(cls2, {'force': 'none', 'discard': 'none', 'outcome': 'return', 'content': 0})
    if decision(cas.log) != 'abort':
        raise Violation('after row %r an unforced run at rate 0 was %s' % (row, decision(cas.log)), 'force-leak')


HIER_PARAMS = [{'skipped': True, 'rate': 1, 'ignore': False}, {'skipped': False, 'rate': 0, 'ignore': False},
               {'skipped': False, 'rate': 1, 'ignore': False}, {'skipped': False, 'rate': 0, 'ignore': True},
               {'skipped': False, 'rate': 1.5, 'ignore': True}]


def check_hierarchy(ctx, row):
    """A decorated operation class extends another decorated operation class: each follows its own parameters."""
    from playback.tape_recorder import TapeRecorder, RecordingParameters
    cas = null_spy()
    rec = TapeRecorder(cas, random_seed=11)
    rec.enable_recording()

    def as_params(p):
        return {'sampling_rate': p['rate'], 'ignore_enforced_sampling': p['ignore'], 'skipped': p['skipped']}

    base = make_class(rec, 'BaseOp', as_params(row['base']), row['klass'])
    sub = type('SubOp', (base,), {})
    rec.recording_params(RecordingParameters(**as_params(row['sub'])))(sub)
    order = [('sub', sub), ('base', base)] if row['sub_first'] else [('base', base), ('sub', sub)]
    for which, cls in order:
        del cas.log[:]
        script = {'force': row['force'], 'discard': 'none', 'outcome': 'return', 'content': 1}
        run_op(cls, script, row['klass'])
        d = decision(cas.log)
        want = expected_row(dict(row[which], force=row['force'], discard='none'))
        if d != want:
            words = {'none': 'not started', 'save': 'saved', 'abort': 'aborted'}
            raise Violation('operation class %s (own parameters %r, %s a class with parameters %r): recording was %s, '
                            'its policy says %s' % (cls.__name__, row[which], 'extends' if which == 'sub' else
                                                    'extended by', row['base' if which == 'sub' else 'sub'], words[d],
                                                    words[want]), 'decision-table-class-hierarchy')


def table(ctx):
    ok = True
    for base, sub in itertools.permutations(HIER_PARAMS, 2):
        for force, klass, sub_first in itertools.product(['none', 'op'], ['instance', 'class'], [False, True]):
            row = {'base': base, 'sub': sub, 'force': force, 'klass': klass, 'sub_first': sub_first}
            ctx.case({'hierarchy': row}, True, classes=('table:class-hierarchy',))
            if not guarded(ctx, {'hierarchy': row}, lambda c: check_hierarchy(ctx, c['hierarchy'])):
                ok = False
                if len(ctx.violations) >= 3:
                    return False
    rows = []
    for skipped, rate, force, ignore, discard, outcome, klass in itertools.product(
            [False, True], [-1, 0, 0.3, 1, 1.5], ['none', 'op', 'body'], [False, True], ['none', 'op', 'body'],
            ['return', 'raise', 'interrupt'], ['instance', 'class']):
        rows.append({'skipped': skipped, 'rate': rate, 'force': force, 'ignore': ignore, 'discard': discard,
                     'outcome': outcome, 'klass': klass, 'content': (len(rows) % 3)})
    for row in rows:
        factors = sum([row['skipped'], row['force'] != 'none', row['ignore'], row['discard'] != 'none',
                       row['outcome'] != 'return', row['rate'] not in (1,)])
        ctx.case({'row': row}, factors >= 2, classes=('table', 'table:expected=' + expected_row(row)))
        if not guarded(ctx, {'row': row}, lambda c: check_row(ctx, c['row'])):
            ok = False
            if len(ctx.violations) >= 3:
                return False
    return ok


# ---- histories

def run_history(rate, seed, n, vary, threads=None):
    """n operations of one class at a fractional rate; vary=True changes content and outcome per operation.
    threads: None = all on the calling thread; 'per-op' = every operation on its own (joined) thread; int k = round
    robin over a pool of k long-lived threads. Returns the decision sequence as a string of S/A."""
    from playback.tape_recorder import TapeRecorder
    cas = null_spy()
    rec = TapeRecorder(cas, random_seed=seed)
    rec.enable_recording()
    cls = make_class(rec, 'HistOp', {'sampling_rate': rate})
    out = []
    for i in range(n):
        del cas.log[:]
        script = {'force': 'none', 'discard': 'none', 'outcome': 'return', 'content': 0}
        if vary:
            script['content'] = i % 7
            script['outcome'] = ['return', 'raise', 'return', 'interrupt', 'raise'][i % 5]
        if threads is None:
            run_op(cls, script)
        elif threads == 'per-op':
            import threading
            t = threading.Thread(target=run_op, args=(cls, script))
            t.start()
            t.join()
        else:
            pool_run(threads, i, lambda: run_op(cls, script))
        out.append('S' if decision(cas.log) == 'save' else 'A')
    pool_close()
    return ''.join(out)


_POOL = {}


def pool_run(k, i, fn):
    """Run fn on thread (i mod k) of a pool of k long-lived threads and wait for it."""
    import threading
    import queue
    if _POOL.get('k') != k:
        pool_close()
        _POOL['k'] = k
        _POOL['qs'] = [queue.Queue() for _ in range(k)]

        def loop(q):
            while True:
                item = q.get()
                if item is None:
                    return
                f, done = item
                try:
                    f()
                finally:
                    done.set()
        _POOL['ts'] = [threading.Thread(target=loop, args=(q,), daemon=True) for q in _POOL['qs']]
        for t in _POOL['ts']:
            t.start()
    done = threading.Event()
    _POOL['qs'][i % k].put((fn, done))
    done.wait(30)


def pool_close():
    for q in _POOL.get('qs', []):
        q.put(None)
    for t in _POOL.get('ts', []):
        t.join(5)
    _POOL.clear()


def check_history(ctx, case):
    rate, seed, n = case['rate'], case['seed'], case['n']
    a = run_history(rate, seed, n, vary=False)
    b = run_history(rate, seed, n, vary=False)
    if a != b:
        raise Violation('same seed %d gave two different decision sequences at rate %s' % (seed, rate), 'seed')
    c = run_history(rate, seed, n, vary=True)
    if a != c:
        first = next(i for i in range(n) if a[i] != c[i])
        raise Violation('paired histories (same seed %d, rate %s) that differ only in operation content/outcome diverge '
                        'at operation %d' % (seed, rate, first), 'content-independence')
    kept = a.count('S') / float(n)
    sigma = math.sqrt(rate * (1 - rate) / n)
    if abs(kept - rate) > 5 * sigma:
        raise Violation('kept fraction %.4f over %d decisions at rate %s is outside 5 sigma (%.4f)' % (
            kept, n, rate, 5 * sigma), 'fraction')
    # the policy holds whichever threads run the operations (thread per request, worker pool)
    m = min(n, 1200 if ctx.quick else 6000)
    for placement in ('per-op', 3):
        t1 = run_history(rate, seed, m, vary=False, threads=placement)
        if t1 != run_history(rate, seed, m, vary=False, threads=placement):
            raise Violation('same seed, same history, same thread placement (%r): different decisions' % (placement,),
                            'seed')
        kept_t = t1.count('S') / float(m)
        sig = math.sqrt(rate * (1 - rate) / m)
        if abs(kept_t - rate) > 5 * sig:
            raise Violation('kept fraction %.4f over %d decisions at rate %s with operations run on %s is outside 5 '
                            'sigma (%.4f)' % (kept_t, m, rate, 'one thread per operation' if placement == 'per-op'
                                              else 'a pool of %d threads' % placement, 5 * sig), 'fraction-threads')
    other = run_history(rate, seed + 1, min(n, 2000), vary=False)
    if other == a[:len(other)] and 0.05 < rate < 0.95:
        raise Violation('different seeds gave identical decisions: the seed is ignored', 'seed')


# ---- generated mixed histories

CLASS_PARAMS = [{'sampling_rate': 0}, {'sampling_rate': 1}, {'sampling_rate': 0, 'ignore_enforced_sampling': True},
                {'sampling_rate': 0.5}, {'sampling_rate': 0.5, 'ignore_enforced_sampling': True}, {'skipped': True},
                None]
ops = st.fixed_dictionaries({'cls': st.integers(0, len(CLASS_PARAMS) - 1),
                             'force': st.sampled_from(['none', 'none', 'op', 'body']),
                             'discard': st.sampled_from(['none', 'none', 'none', 'op', 'body']),
                             'outcome': st.sampled_from(['return', 'return', 'raise', 'interrupt']),
                             'content': st.integers(0, 6)})


def check_mixed(ctx, case):
    from playback.tape_recorder import TapeRecorder

    def run(seed):
        cas = null_spy()
        rec = TapeRecorder(cas, random_seed=seed)
        rec.enable_recording()
        classes = [make_class(rec, 'Mixed%d' % i, p, 'class' if i % 2 else 'instance')
                   for i, p in enumerate(CLASS_PARAMS)]
        seq = []
        for n, op in enumerate(case['ops']):
            del cas.log[:]
            run_op(classes[op['cls']], op, 'class' if op['cls'] % 2 else 'instance')
            d = decision(cas.log)
            p = CLASS_PARAMS[op['cls']] or {}
            row = {'skipped': bool(p.get('skipped')), 'rate': p.get('sampling_rate', 1.0), 'force': op['force'],
                   'ignore': bool(p.get('ignore_enforced_sampling')), 'discard': op['discard']}
            want = expected_row(row)
            if want != 'either' and d != want:
                raise Violation('operation %d of the history (%r, class parameters %r) was %s, policy says %s' % (
                    n, op, p, d, want), 'history-decision')
            if rec.is_recording_sample_forced or rec.in_recording_mode:
                raise Violation('recorder not idle after operation %d' % n, 'sticky-force')
            seq.append(d)
        return seq

    a = run(case['seed'])
    if run(case['seed']) != a:
        raise Violation('same seed, same history, different decisions', 'seed')
    forced_then_unforced = any(x['force'] != 'none' and x['discard'] == 'none' and y['force'] == 'none'
                               for x, y in zip(case['ops'], case['ops'][1:]))
    ctx.case(case, forced_then_unforced, classes=('mixed', 'mixed:len=%d' % min(len(case['ops']), 10)))


# ---- S3 size-based calculator

def check_s3(ctx, case):
    from playback.tape_cassettes.s3.s3_tape_cassette import S3TapeCassette
    ratio, n = case['ratio'], case['n']
    seqs = []
    for _ in range(2):
        fake = fakes3.install()
        calls = []

        def calc(category, size, recording):
            calls.append((category, size, recording.id))
            return ratio

        cas = S3TapeCassette(zoo.BUCKET, key_prefix='p', read_only=False, sampling_calculator=calc)
        seq = []
        for i in range(n):
            rec = cas.create_new_recording('Cat%d' % (i % 2))
            rec.set_data('k', 'x' * (i % 5))
            rec.add_metadata({'i': i})
            n0 = len(fake.log)
            cas.save_recording(rec)
            writes = fake.log[n0:]
            if len(calls) != i + 1 or calls[-1][0] != 'Cat%d' % (i % 2) or calls[-1][2] != rec.id:
                raise Violation('sampling calculator called with %r for recording %s' % (calls[-1:], rec.id), 's3-calculator')
            if writes:
                keys = sorted(w[2] for w in writes)
                if len(writes) != 2 or not all(rec.id in k for k in keys):
                    raise Violation('partial write for a sampled recording: %r' % (writes,), 's3-writes')
                full = [k for k in keys if '/full/' in k][0]
                if calls[-1][1] != len(fake.contents(zoo.BUCKET)[full]):
                    raise Violation('calculator was given size %r, stored object has %d bytes' % (
                        calls[-1][1], len(fake.contents(zoo.BUCKET)[full])), 's3-calculator')
            seq.append('S' if writes else 'A')
        seqs.append(''.join(seq))
    a = seqs[0]
    if seqs[1] != a:
        raise Violation('two S3 cassettes gave different sampling sequences for the same history', 's3-seed')
    if ratio >= 1 and 'A' in a:
        raise Violation('S3 calculator ratio %s >= 1 but a recording was dropped' % ratio, 's3-decision')
    if ratio <= 0 and 'S' in a:
        raise Violation('S3 calculator ratio %s <= 0 but a recording was stored' % ratio, 's3-decision')
    if 0 < ratio < 1:
        kept = a.count('S') / float(n)
        sigma = math.sqrt(ratio * (1 - ratio) / n)
        if abs(kept - ratio) > 5 * sigma:
            raise Violation('S3 kept fraction %.4f over %d at ratio %s outside 5 sigma' % (kept, n, ratio), 's3-fraction')


def replay(ctx, case):
    if 'row' in case:
        check_row(ctx, case['row'])
    elif 'hierarchy' in case:
        check_hierarchy(ctx, case['hierarchy'])
    elif 'ops' in case:
        check_mixed(ctx, case)
    elif 'ratio' in case:
        check_s3(ctx, case)
    elif case.get('rate') == 0:
        kept = run_history(0, case['seed'], case['n'], vary=True).count('S')
        if kept:
            raise Violation('%d of %d unforced recordings were kept at sampling rate 0' % (kept, case['n']),
                            'history-rate-0')
    else:
        check_history(ctx, case)


def run(ctx):
    if ctx.shard == 0:
        ctx.exhaustive = bool(table(ctx))
        ctx.extra['exhaustive_scope'] = 'the decision table named in rule (1080 rows); histories are sampled'
        for ratio in (-1, 0, 0.3, 0.7, 1, 1.5):
            case = {'ratio': ratio, 'n': ctx.pick(1500, 6000)}
            ctx.case(case, 0 < ratio < 1, classes=('s3-calculator',))
            guarded(ctx, case, lambda c: check_s3(ctx, c))
    if ctx.violations:
        return
    if ctx.shard == 0:
        # rate 0 means never: a long unforced history keeps nothing (a draw is compared with the rate as it is, so even
        # the smallest draws stay outside it)
        case = {'rate': 0, 'seed': 3 + ctx.seed, 'n': ctx.pick(20000, 200000)}
        ctx.case(case, True, classes=('history:rate-0',))

        def zero(c):
            kept = run_history(0, c['seed'], c['n'], vary=True).count('S')
            if kept:
                raise Violation('%d of %d unforced recordings were kept at sampling rate 0' % (kept, c['n']),
                                'history-rate-0')
        guarded(ctx, case, zero)
        if ctx.violations:
            return
    seeds = [1, 7, 12345][:ctx.pick(1, 3)]
    for rate in (0.1, 0.5, 0.9):
        for seed in seeds:
            if ctx.nshards > 1 and (hash_idx(rate, seed) % ctx.nshards) != ctx.shard:
                continue
            case = {'rate': rate, 'seed': seed + ctx.seed, 'n': ctx.pick(6000, 60000)}
            ctx.case(case, case['n'] >= 1000, classes=('history',))
            guarded(ctx, case, lambda c: check_history(ctx, c))
    if not ctx.violations:
        hyp_search(ctx, st.fixed_dictionaries({'ops': st.lists(ops, min_size=2, max_size=25),
                                               'seed': st.integers(0, 1000)}),
                   lambda c: check_mixed(ctx, c), ctx.pick(300, 3000), label='mixed')


def hash_idx(rate, seed):
    return int(rate * 10) + seed
