"""Hand-written mutations for the sensitivity runs of DESIGN.md 5 (name, expected catchers, file, old, new).
Applied to scratch copies only (tools_mutants.py)."""

TR = 'playback/tape_recorder.py'
TC = 'playback/tape_cassette.py'
MEM = 'playback/tape_cassettes/in_memory/in_memory_tape_cassette.py'
FILE = 'playback/tape_cassettes/file_based/file_based_tape_cassette.py'
S3 = 'playback/tape_cassettes/s3/s3_tape_cassette.py'
S3F = 'playback/tape_cassettes/s3/s3_basic_facade.py'
MREC = 'playback/recordings/memory/memory_recording.py'
ASYNC = 'playback/tape_cassettes/asynchronous/async_record_only_tape_cassette.py'
EQ = 'playback/studio/equalizer.py'
STUDIO = 'playback/studio/studio.py'
LOOKUP = 'playback/studio/recordings_lookup.py'
FI = 'playback/interception/files/file_interception.py'
FIN = 'playback/interception/files/input_file_interception.py'

MUTANTS = [
    # ---- C14
    ('c14-pattern-any-type', ['C14'], TC,
     "return isinstance(recorded_value, six.string_types) and fnmatch(recorded_value, match_value)",
     "return fnmatch(recorded_value, match_value)"),
    ('c14-operator-le-strict', ['C14'], TC, "result = recorded_value <= metadata_value['value']",
     "result = recorded_value < metadata_value['value']"),
    ('c14-list-all', ['C14'], TC, "return any(TapeCassette._match_metadata_value(value, recorded_value) for value in match_value)",
     "return all(TapeCassette._match_metadata_value(value, recorded_value) for value in match_value)"),
    ('c14-missing-matches', ['C14'], TC, "if recorded_value is None and match_value is not None:\n            return False",
     "if recorded_value is None and match_value is not None:\n            return match_value is False"),
    ('c14-first-key-only', ['C14'], TC, "            if not TapeCassette._match_metadata_value(v, recorded_value):\n                return False\n",
     "            return TapeCassette._match_metadata_value(v, recorded_value)\n"),
    # ---- C07
    ('c07-s3-drop-metadata-in-full', ['C07'], S3, "full_data['_metadata'] = recording.recording_metadata",
     "full_data['_metadata'] = {}"),
    ('c07-mem-unknown-none', ['C07'], MEM, "raise NoSuchRecording(recording_id)", "return None"),
    ('c07-s3-swallow-nosuchkey', ['C07'], S3,
     "            if 'NoSuchKey' in type(ex).__name__:\n                raise NoSuchRecording(recording_id)\n            raise\n        _logger.info(u'Decoding recording of key",
     "            if 'NoSuchKey' in type(ex).__name__:\n                return MemoryRecording(recording_id)\n            raise\n        _logger.info(u'Decoding recording of key"),
    ('c07-file-name-collision', ['C07'], FILE, "recording_id.replace('/', '_')) + '.json'",
     "recording_id.split('/')[0]) + '.json'"),
    ('c07-s3-metadata-key-stale', ['C07'], S3,
     "self._s3_facade.put_string(metadata_key, encode(recording.recording_metadata, unpicklable=True))",
     "self._s3_facade.put_string(metadata_key, encode(dict((k, v) for k, v in recording.recording_metadata.items() if v is not None), unpicklable=True))"),
    # ---- C10
    ('c10-mem-category-prefix', ['C10'], MEM, "if self.extract_recording_category(recording.id) != category:",
     "if not self.extract_recording_category(recording.id).startswith(category):"),
    ('c10-file-no-exact-category', ['C10'], FILE, "            if self.extract_recording_category(recording.id) != category:\n                continue\n", ""),
    ('c10-s3-category-no-slash', ['C10'], S3, "id_prefixes = ['{}/'.format(category)]", "id_prefixes = ['{}'.format(category)]"),
    ('c10-s3-prefix-no-slash', ['C15'], S3, "self.key_prefix = (key_prefix + '/') if key_prefix else ''", "self.key_prefix = key_prefix"),
    ('c10-skip-incomplete-drops-none', ['C10'], LOOKUP, "metadata[TapeRecorder.INCOMPLETE_RECORDING] = [False, None]",
     "metadata[TapeRecorder.INCOMPLETE_RECORDING] = [False]"),
    ('c10-mem-limit-off-by-one', ['C10'], MEM, "result = result[:limit]", "result = result[:limit + 1]"),
    ('c10-file-ignores-limit', ['C10'], FILE, "        if limit:\n            ids = ids[:limit]\n", ""),
    ('c10-s3-id-from-parser', ['C10'], S3, "recording_id = key[len(metadata_key_prefix):]",
     "recording_id = self._metadata_key_parser.parse(key).named['id']"),
    ('c10-mem-filter-skipped-when-falsy-values', ['C10'], MEM, "            if metadata:\n                # Filter based on metadata if provided\n                if not TapeCassette",
     "            if metadata and any(metadata.values()):\n                # Filter based on metadata if provided\n                if not TapeCassette"),
]
