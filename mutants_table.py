"""Hand-written mutations for the sensitivity runs of DESIGN.md 5 (name, expected catchers, file, old, new).
Applied to scratch copies only (tools_mutants.py)."""

TR = 'playback/tape_recorder.py'
TC = 'playback/tape_cassette.py'
MEM = 'playback/tape_cassettes/in_memory/in_memory_tape_cassette.py'
FILE = 'playback/tape_cassettes/file_based/file_based_tape_cassette.py'
S3 = 'playback/tape_cassettes/s3/s3_tape_cassette.py'
S3F = 'playback/tape_cassettes/s3/s3_basic_facade.py'
MREC = 'playback/recordings/memory/memory_recording.py'
ASYNC = 'playback/tape_cassettes/asynchronous/async_record_only_tape_cassette.py'
EQ = 'playback/studio/equalizer.py'
STUDIO = 'playback/studio/studio.py'
LOOKUP = 'playback/studio/recordings_lookup.py'
FI = 'playback/interception/files/file_interception.py'
FIN = 'playback/interception/files/input_file_interception.py'

MUTANTS = [
    # ---- C14
    ('c14-pattern-any-type', ['C14'], TC,
     "return isinstance(recorded_value, six.string_types) and fnmatch(recorded_value, match_value)",
     "return fnmatch(recorded_value, match_value)"),
    ('c14-operator-le-strict', ['C14'], TC, "result = recorded_value <= metadata_value['value']",
     "result = recorded_value < metadata_value['value']"),
    ('c14-list-all', ['C14'], TC, "return any(TapeCassette._match_metadata_value(value, recorded_value) for value in match_value)",
     "return all(TapeCassette._match_metadata_value(value, recorded_value) for value in match_value)"),
    ('c14-missing-matches', ['C14'], TC, "if recorded_value is None and match_value is not None:\n            return False",
     "if recorded_value is None and match_value is not None:\n            return match_value is False"),
    ('c14-first-key-only', ['C14'], TC, "            if not TapeCassette._match_metadata_value(v, recorded_value):\n                return False\n",
     "            return TapeCassette._match_metadata_value(v, recorded_value)\n"),
    # ---- C07
    ('c07-s3-drop-metadata-in-full', ['C07'], S3, "full_data['_metadata'] = recording.recording_metadata",
     "full_data['_metadata'] = {}"),
    ('c07-mem-unknown-none', ['C07'], MEM, "raise NoSuchRecording(recording_id)", "return None"),
    ('c07-s3-swallow-nosuchkey', ['C07'], S3,
     "            if 'NoSuchKey' in type(ex).__name__:\n                raise NoSuchRecording(recording_id)\n            raise\n        _logger.info(u'Decoding recording of key",
     "            if 'NoSuchKey' in type(ex).__name__:\n                return MemoryRecording(recording_id)\n            raise\n        _logger.info(u'Decoding recording of key"),
    ('c07-file-name-collision', ['C07'], FILE, "recording_id.replace('/', '_')) + '.json'",
     "recording_id.split('/')[0]) + '.json'"),
    ('c07-s3-metadata-key-stale', ['C07'], S3,
     "self._s3_facade.put_string(metadata_key, encode(recording.recording_metadata, unpicklable=True))",
     "self._s3_facade.put_string(metadata_key, encode(dict((k, v) for k, v in recording.recording_metadata.items() if v is not None), unpicklable=True))"),
    # ---- C10
    ('c10-mem-category-prefix', ['C10'], MEM, "if self.extract_recording_category(recording.id) != category:",
     "if not self.extract_recording_category(recording.id).startswith(category):"),
    ('c10-file-no-exact-category', ['C10'], FILE, "            if self.extract_recording_category(recording.id) != category:\n                continue\n", ""),
    ('c10-s3-category-no-slash', ['C10'], S3, "id_prefixes = ['{}/'.format(category)]", "id_prefixes = ['{}'.format(category)]"),
    ('c10-s3-prefix-no-slash', ['C15'], S3, "self.key_prefix = (key_prefix + '/') if key_prefix else ''", "self.key_prefix = key_prefix"),
    ('c10-skip-incomplete-drops-none', ['C10'], LOOKUP, "metadata[TapeRecorder.INCOMPLETE_RECORDING] = [False, None]",
     "metadata[TapeRecorder.INCOMPLETE_RECORDING] = [False]"),
    ('c10-mem-limit-off-by-one', ['C10'], MEM, "result = result[:limit]", "result = result[:limit + 1]"),
    ('c10-file-ignores-limit', ['C10'], FILE, "        if limit:\n            ids = ids[:limit]\n", ""),
    ('c10-s3-id-from-parser', ['C10'], S3, "recording_id = key[len(metadata_key_prefix):]",
     "recording_id = self._metadata_key_parser.parse(key).named['id']"),
    ('c10-mem-filter-skipped-when-falsy-values', ['C10'], MEM, "            if metadata:\n                # Filter based on metadata if provided\n                if not TapeCassette",
     "            if metadata and any(metadata.values()):\n                # Filter based on metadata if provided\n                if not TapeCassette"),
    # ---- C16
    ('c16-elapsed-days', ['C16'], S3, "days_count = (end_date.date() - start_date.date()).days + 1", "days_count = (end_date - start_date).days + 1"),
    ('c16-start-exclusive', ['C16'], S3F, "(start_date is None or start_date <= o.last_modified)", "(start_date is None or start_date < o.last_modified)"),
    ('c16-end-exclusive', ['C16'], S3F, "(end_date is None or o.last_modified <= end_date)", "(end_date is None or o.last_modified < end_date)"),
    ('c16-skip-first-day', ['C16'], S3, "for i in range(days_count)]", "for i in range(1, days_count + 1)]"),
    ('c16-end-ignored-when-filter', ['C16'], S3F, "        if content_filter:\n            predicates.append(", "        if content_filter:\n            predicates = []\n            predicates.append("),
    ('c16-limit-per-day-only', ['C16'], S3, "while count != limit and days_iterators:", "while days_iterators:"),
    # ---- C15
    ('c15-close-guard-inverted', ['C15'], S3, "if self.read_only or not self.transient:", "if self.read_only and not self.transient:"),
    ('c15-close-guard-ignores-readonly', ['C15'], S3, "if self.read_only or not self.transient:", "if not self.transient:"),
    ('c15-metadata-before-full', ['C15'], S3,
     "        self._s3_facade.put_string(full_key, compressed_full, StorageClass=storage_class)\n",
     "        self._s3_facade.put_string(metadata_key, encode(recording.recording_metadata, unpicklable=True))\n        self._s3_facade.put_string(full_key, compressed_full, StorageClass=storage_class)\n"),
    ('c15-save-no-readonly-assert', ['C15'], S3, "        self._assert_not_read_only()\n\n        full_data = copy(recording.recording_data)", "        full_data = copy(recording.recording_data)"),
    ('c15-close-deletes-whole-prefix', ['C15'], S3, "full_key = self.FULL_KEY.format(key_prefix=self.key_prefix, id='')\n        metadata_key",
     "full_key = 'tape_recorder_recordings/' + self.key_prefix\n        metadata_key"),
    ('c15-close-keeps-metadata', ['C15'], S3, "        self._s3_facade.delete_by_prefix(metadata_key)\n", ""),
    ('c15-close-prefix-without-slash', ['C15'], S3, "metadata_key = self.METADATA_KEY.format(key_prefix=self.key_prefix, id='')\n        _logger.info(u'Deleting all full",
     "metadata_key = self.METADATA_KEY.format(key_prefix=self.key_prefix.rstrip('/'), id='')\n        _logger.info(u'Deleting all full"),
    # ---- C01
    ('c01-no-reraise-recorded-exception', ['C01'], TR, "        if 'exception' in recorded:\n            raise recorded['exception']\n\n        value = recorded['value']",
     "        value = recorded.get('value')"),
    ('c01-skip-restore-handler', ['C01'], TR, "            value = data_handler.restore_input_from_recording(value, args, kwargs)\n", "            pass\n"),
    ('c01-output-ordinal-off-by-one-on-replay', ['C01', 'C03'], TR, "                invocation_number = self._invoke_counter[alias]\n",
     "                invocation_number = self._invoke_counter[alias] + (1 if self.in_playback_mode and self._invoke_counter[alias] > 9 else 0)\n"),
    ('c01-output-instance-not-stripped-static', ['C03'], TR, "args if static_function else args[1:], kwargs,", "args[1:], kwargs,"),
    ('c01-key-ignores-kwargs', ['C01', 'C06'], TR, "            kwargs_for_key = kwargs\n        # Set to not", "            kwargs_for_key = {}\n        # Set to not"),
    ('c01-first-key-lexicographic', ['C01', 'C02'], TR, "interception_key = next((x for x in possible_keys if x in recording_keys), None)",
     "interception_key = next((x for x in sorted(recording_keys) if x.startswith(possible_keys[0][:12])), None) if len(recording_keys) > 6 else next((x for x in possible_keys if x in recording_keys), None)"),
    ('c01-thread-local-flag-shared', ['C01'], TR, "self._thread_locals = threading.local()", "self._thread_locals = type('NS', (), {})()"),
    ('c01-counter-not-reset-after-play', ['C09'], TR, "            self._playback_outputs = []\n            # Clear any previous invocation counter state\n            self._invoke_counter = Counter()", "            self._playback_outputs = []"),
    ('c01-op-exception-not-output-in-replay', ['C01', 'C03'], TR, "            if self.in_playback_mode:\n                # In playback mode we want to capture this as an error",
     "            if self.in_playback_mode and False:\n                # In playback mode we want to capture this as an error"),
    ('c01-getdata-tuple-to-list', ['C01', 'C07', 'C11'], MREC, "return pickle_copy(self.get_data_direct(key))", "import json as _j\n        from jsonpickle import encode as _e, decode as _d\n        return _d(_e(self.get_data_direct(key), unpicklable=True).replace('py/tuple', 'py/seq'))"),
    ('c01-property-input-not-intercepted-in-replay', ['C01', 'C02'], TR, "            def decorated_function(*args, **kwargs):\n                if not self._should_intercept:\n                    return func(*args, **kwargs)\n\n                try:\n                    formatted_alias",
     "            def decorated_function(*args, **kwargs):\n                if not self._should_intercept or (is_property and self.in_playback_mode):\n                    return func(*args, **kwargs)\n\n                try:\n                    formatted_alias"),
    # ---- C03
    ('c03-counter-global', ['C03'], TR, "                self._invoke_counter[alias] += 1\n                invocation_number = self._invoke_counter[alias]",
     "                self._invoke_counter['*'] += 1\n                invocation_number = self._invoke_counter['*']"),
    ('c03-kwargs-dropped', ['C03'], TR, "value = {'args': list(args), 'kwargs': kwargs}", "value = {'args': list(args), 'kwargs': {}}"),
    ('c03-result-keys-leak', ['C03', 'C01'], TR, "if key.startswith('output:') and\n                           not key.endswith('result')]", "if key.startswith('output:')]"),
    ('c03-op-output-omitted-on-exception', ['C03', 'C18'], TR, "        except Exception as ex:\n            self._record_output(TapeRecorder.OPERATION_OUTPUT_ALIAS, invocation_number=1,\n                                args=[self._serializable_exception_form(ex)], kwargs={})\n",
     "        except Exception as ex:\n"),
    ('c03-playback-outputs-dedup', ['C03'], TR, "            self._playback_outputs.append(Output(interception_key, value))\n            return",
     "            if not any(o.value == value for o in self._playback_outputs):\n                self._playback_outputs.append(Output(interception_key, value))\n            return"),
    ('c03-handler-skipped-in-replay', ['C03'], TR, "        if data_handler:\n            try:\n                value = data_handler.prepare_output_for_recording",
     "        if data_handler and not self.in_playback_mode:\n            try:\n                value = data_handler.prepare_output_for_recording"),
    ('c03-args-by-reference-kwargs-shared', ['C03'], TR, "value = {'args': list(args), 'kwargs': kwargs}", "value = {'args': list(args[:1]), 'kwargs': kwargs}"),
    # ---- C02
    ('c02-falsy-substitute-ignored', ['C02'], TR, "if value_when_missing is not None:", "if value_when_missing:"),
    ('c02-substitute-before-run-original', ['C02'], TR,
     "                        if run_intercepted_when_missing:\n                            # Run the original method when content was missing in recording\n                            return func(*args, **kwargs)\n                        if value_when_missing is not None:\n                            if callable(value_when_missing):\n                                return value_when_missing(*args, **kwargs)\n                            return value_when_missing\n",
     "                        if value_when_missing is not None:\n                            if callable(value_when_missing):\n                                return value_when_missing(*args, **kwargs)\n                            return value_when_missing\n                        if run_intercepted_when_missing:\n                            return func(*args, **kwargs)\n"),
    ('c02-fallbacks-ignored-for-fn', ['C02'], TR, "                    if callable(fallback_aliases):\n                        fallback_aliases_list = fallback_aliases(*args, **kwargs)", "                    if callable(fallback_aliases):\n                        fallback_aliases_list = []"),
    ('c02-default-even-when-failing', ['C02'], TR, "                        if fail_on_no_recorded_result:\n                            raise\n", ""),
    ('c02-operation-records-during-replay', ['C02'], TR, "                if self.in_playback_mode:\n                    return self._execute_operation_func(func, args, kwargs)\n\n                if not self.recording_enabled:",
     "                if self.in_playback_mode and not self.recording_enabled:\n                    return self._execute_operation_func(func, args, kwargs)\n\n                if not self.recording_enabled:"),
    ('c02-callable-substitute-not-called', ['C02'], TR, "                            if callable(value_when_missing):\n                                return value_when_missing(*args, **kwargs)\n", ""),
    ('c02-fallback-last-wins', ['C02'], TR, "interception_key = next((x for x in possible_keys if x in recording_keys), None)", "interception_key = next((x for x in reversed(possible_keys) if x in recording_keys), None)"),
    ('c02-missing-output-result-runs-body', ['C02'], TR, "                        if fail_on_no_recorded_result:\n                            raise\n                        return default_result_when_not_recorded", "                        if fail_on_no_recorded_result:\n                            raise\n                        return func(*args, **kwargs)"),
    ('c02-run-original-twice', ['C02'], TR, "                            # Run the original method when content was missing in recording\n                            return func(*args, **kwargs)", "                            func(*args, **kwargs)\n                            return func(*args, **kwargs)"),
    ('c02-play-saves-recording-copy', ['C02'], TR, "        recording = self.tape_cassette.get_recording(recording_id)\n        self._playback_recording = recording", "        recording = self.tape_cassette.get_recording(recording_id)\n        if self.recording_enabled:\n            self.tape_cassette.save_recording(recording)\n        self._playback_recording = recording"),
    # ---- C04
    ('c04-revert-fix-params-deref', ['C04'], TR, "        if interception_key is not None and recording_parameters is not None:", "        recording_parameters = self._active_recording_parameters or type('P', (), {'copy_data_on_intercepion': None.__class__.__name__ and self._active_recording_parameters.copy_data_on_intercepion})()\n        if interception_key is not None:"),
    ('c04-swallow-body-exception', ['C04'], TR, "                    self._record_interception(interception_key, {'exception': ex})\n                raise\n", "                    self._record_interception(interception_key, {'exception': ex})\n                    return None\n                raise\n"),
    ('c04-body-twice-on-handler-failure', ['C04'], TR, "                _logger.exception(error_message)\n\n                self.discard_recording()\n                return result\n", "                _logger.exception(error_message)\n\n                self.discard_recording()\n                return func(*args, **kwargs)\n"),
    ('c04-return-copied-value', ['C04'], TR, "                try:\n                    recorded_result = pickle_copy(recorded_result)\n", "                try:\n                    recorded_result = pickle_copy(recorded_result)\n                    result = recorded_result if data_handler is None else result\n"),
    ('c04-touch-cassette-when-disabled', ['C04'], TR, "                if not self.recording_enabled:\n                    return func(*args, **kwargs)\n\n                cls = args[0] if class_function", "                if not self.recording_enabled:\n                    self.tape_cassette.abort_recording(self.tape_cassette.create_new_recording('x'))\n                    return func(*args, **kwargs)\n\n                cls = args[0] if class_function"),
    ('c04-save-failure-propagates', ['C04'], TR, "                    except Exception:\n                        _logger.exception(u'Failed saving recording of category {} with id {}'.format(\n                            category, recording.id))", "                    except IOError:\n                        _logger.exception(u'Failed saving recording of category {} with id {}'.format(\n                            category, recording.id))\n                        raise"),
    ('c04-extractor-failure-propagates', ['C04'], TR, "                metadata.update(post_operation_metadata_extractor())\n            except Exception:", "                metadata.update(post_operation_metadata_extractor())\n            except RuntimeError:"),
    ('c04-key-failure-skips-body', ['C04'], TR, "                    interception_key = None\n                    self.discard_recording()\n", "                    interception_key = None\n                    self.discard_recording()\n                    return None\n"),
    ('c04-output-handler-failure-raises', ['C04'], TR, "                _logger.exception(error_message)\n\n                self.discard_recording()\n                return\n", "                _logger.exception(error_message)\n\n                self.discard_recording()\n                raise\n"),
    ('c04-interception-flag-not-restored-on-exception', ['C01', 'C05', 'C09'], TR, "        try:\n            yield\n        finally:\n            self._currently_in_interception = False", "        yield\n        self._currently_in_interception = False"),
    ('c04-record-interception-asserts', ['C04'], TR, "        recording = self._active_recording\n        if recording is None:\n            return\n        _logger.debug(u'Recording data for recording id {} under key {}'.format(recording.id, key))\n        recording[key] = data", "        self._record_data(key, data)"),
    # ---- C05
    ('c05-discard-no-reset', ['C05'], TR, "            self.tape_cassette.abort_recording(recording)\n            self._reset_active_recording()", "            self.tape_cassette.abort_recording(recording)"),
    ('c05-save-after-input-handler-failure', ['C05'], TR, "                _logger.exception(error_message)\n\n                self.discard_recording()\n                return result\n", "                _logger.exception(error_message)\n\n                return result\n"),
    ('c05-no-abort-when-sampled-out', ['C05'], TR, "                if not self._should_sample_active_recording(recording, recording_parameters, force_sample):\n                    self.tape_cassette.abort_recording(recording)\n                else:", "                if not self._should_sample_active_recording(recording, recording_parameters, force_sample):\n                    pass\n                else:"),
    ('c05-key-failure-no-discard', ['C05'], TR, "                    interception_key = None\n                    self.discard_recording()\n", "                    interception_key = None\n"),
    ('c05-output-handler-failure-no-discard', ['C05'], TR, "                _logger.exception(error_message)\n\n                self.discard_recording()\n                return\n", "                _logger.exception(error_message)\n\n                return\n"),
    ('c05-interrupt-aborts-and-saves', ['C05'], TR, "        except Exception:\n            metadata[TapeRecorder.EXCEPTION_IN_OPERATION] = True\n            raise\n        finally:", "        except Exception:\n            metadata[TapeRecorder.EXCEPTION_IN_OPERATION] = True\n            raise\n        except BaseException:\n            self.tape_cassette.abort_recording(self._active_recording)\n            raise\n        finally:"),
    ('c05-save-retried-on-failure', ['C05'], TR, "                    except Exception:\n                        _logger.exception(u'Failed saving recording of category {} with id {}'.format(\n                            category, recording.id))", "                    except Exception:\n                        try:\n                            self.tape_cassette.save_recording(recording)\n                        except Exception:\n                            pass"),
    ('c05-discard-after-finalise-window', ['C09'], TR, "                # Clear recording not to leave recording in active state if we have\n                # some exception raised in following code\n                self._reset_active_recording()\n", ""),
]
