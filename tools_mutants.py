"""Sensitivity runs (developer helper, not a registered check): apply a named mutation to a scratch copy of /repo
(never to /repo itself), run the quick tier of the given checks against it via PLAYBACK_SRC, remove the copy.

usage: tools_mutants.py [-k name-substring] [PROPERTY ...]        (no property = those listed for the mutant)
Each mutant: (name, [properties expected to catch it], file, old, new)
"""
import os
import shutil
import subprocess
import sys
import tempfile

from mutants_table import MUTANTS


def run_one(m, props, tier='quick'):
    name, expected, path, old, new = m
    d = tempfile.mkdtemp(prefix='verif-mut-')
    try:
        shutil.copytree('/repo/playback', os.path.join(d, 'playback'))
        p = os.path.join(d, path)
        s = open(p).read()
        olds, news = (old, new) if isinstance(old, list) else ([old], [new])
        for o, n in zip(olds, news):
            if s.count(o) < 1:
                return {pp: 'MUTATION-DOES-NOT-APPLY' for pp in (props or expected)}
            s = s.replace(o, n, 1)
        open(p, 'w').write(s)
        out = {}
        for prop in (props or expected):
            env = dict(os.environ, PLAYBACK_SRC=d)
            r = subprocess.run(['./check', prop, '--tier', tier, '--no-evidence'], env=env, cwd='/verif',
                               stdout=subprocess.PIPE, stderr=subprocess.STDOUT, universal_newlines=True)
            clause = [l.strip() for l in r.stdout.splitlines() if l.strip().startswith('clause:')]
            out[prop] = ('caught' if r.returncode == 1 else 'MISSED' if r.returncode == 0 else 'HARNESS-ERROR') + \
                        (' [%s]' % clause[0][:90] if clause else '')
            if r.returncode == 2:
                out[prop] += '\n' + r.stdout[-1500:]
        return out
    finally:
        shutil.rmtree(d, ignore_errors=True)


def main():
    args = sys.argv[1:]
    sel = None
    if args and args[0] == '-k':
        sel = args[1]
        args = args[2:]
    props = args
    for m in MUTANTS:
        if sel and sel not in m[0]:
            continue
        if props and not sel and not set(props) & set(m[1]):
            continue
        res = run_one(m, props if sel else [p for p in m[1] if not props or p in props])
        for prop, r in res.items():
            print('%-45s %-4s %s' % (m[0], prop, r))
            sys.stdout.flush()


if __name__ == '__main__':
    main()
