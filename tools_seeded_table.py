"""Developer helper: prints the seeded-change table of DESIGN.md (Appendix D) from seeded/*/meta.json."""
import glob
import json
import os

rows = []
for d in sorted(glob.glob(os.path.join(os.path.dirname(os.path.abspath(__file__)), 'seeded', '*', 'meta.json'))):
    m = json.load(open(d))
    name = os.path.basename(os.path.dirname(d))
    det = '; '.join('%s: %s' % kv for kv in m.get('detected_by', {}).items())
    rows.append('| `%s` | %s | %s | %s | %s |' % (name, m['property'], m['change'].replace('|', '/'),
                                                m['needs_to_manifest'].replace('|', '/'), det.replace('|', '/')))
print('| name | property | change | needs, in order to manifest | caught by |')
print('|------|----------|--------|------|-----------|')
print('\n'.join(rows))
