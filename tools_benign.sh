#!/bin/bash
# Developer helper: run the quick tier of every check against harmless refactorings (patches under $1/<ID>/patch.diff,
# default /verif/benign) applied to scratch copies of /repo/playback; anything but rc=0 is a false alarm to look at.
# Results: $2 (default /tmp/benign_results.txt) and <results>.failures
src=${1:-/verif/benign}
res=${2:-/tmp/benign_results.txt}
cd /verif
out=$(mktemp -d)
lane=0
for d in $src/*/; do n=$(basename $d); [ -f $d/patch.diff ] && echo $n >> $out/lane$((lane % ${LANES:-3})) && lane=$((lane+1)); done
for l in $(seq 0 $((${LANES:-3}-1))); do
  ( for n in $(cat $out/lane$l 2>/dev/null); do
      s=$(mktemp -d /tmp/verif-benign-XXXX)
      cp -r /repo/playback $s/
      if ! (cd $s && patch -p1 -s --no-backup-if-mismatch < $src/$n/patch.diff > $out/patch_$n.log 2>&1); then echo "$n PATCH-DOES-NOT-APPLY" >> $out/res_$l.txt; rm -rf $s; continue; fi
      for p in ${CHECKS:-C01 C02 C03 C04 C05 C06 C07 C08 C09 C10 C11 C12 C13 C14 C15 C16 C17 C18 C19 C20}; do
        o=$(PLAYBACK_SRC=$s timeout 900 ./check $p --tier quick --no-evidence 2>&1); rc=$?
        echo "$n $p rc=$rc" >> $out/res_$l.txt
        if [ $rc -ne 0 ]; then echo "=== $n $p rc=$rc" >> $out/fail_$l.txt; echo "$o" | grep -v "^WARN" | tail -25 >> $out/fail_$l.txt; fi
      done
      rm -rf $s
    done ) &
done
wait
cat $out/res_*.txt | sort > $res
cat $out/fail_*.txt > $res.failures 2>/dev/null
rm -rf $out
